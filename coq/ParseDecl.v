(* The declaration as it is WRITTEN - provider expressions wrapped in Async / Bind, grouped in (nested) Sets - and its
   decoding into the flat provider list NewGraph works on (parser.go: parseProviderType, collection of Set contents).
   The static correspondence hands the written form to this decoder, so the parser's glue lies on the path between the
   source text and the model whose output is compared with the generated code. *)
From Coq Require Import List Arith Lia Bool NArith.
Import ListNotations.
Require Import Gen.

Section Parse.
Variable implements : N -> N -> bool.     (* go/types.Implements: a provided type, an interface type *)
Variable errty : N.                        (* the predeclared type error *)
Variable fields_of : N -> list (N * N).    (* exported fields of a struct type, sorted by name: (field name id, type) *)

Inductive pexpr :=
| XProvide (params results : list N)       (* kessoku.Provide(f): f's signature *)
| XValue (t : N)                            (* kessoku.Value(v): v's type *)
| XStruct (t : N)                           (* kessoku.Struct[T]() *)
| XAsync (e : pexpr)                        (* kessoku.Async(e) *)
| XBind (iface : N) (e : pexpr)             (* kessoku.Bind[I](e) *)
| XSet (es : list pexpr).                   (* kessoku.Set(...), inline or through a variable *)

Definition is_err (t : N) : bool := N.eqb t errty.
Definition set_async (p : prov) : prov :=
  {| requires := requires p; provides := provides p; fallible := fallible p; async := true; isstruct := isstruct p;
     sfields := sfields p; isfield := isfield p; fname := fname p |}.
Definition set_provides (p : prov) (prv : list (list N)) : prov :=
  {| requires := requires p; provides := prv; fallible := fallible p; async := async p; isstruct := isstruct p;
     sfields := sfields p; isfield := isfield p; fname := fname p |}.
(* the interface joins every result group one of whose types implements it *)
Definition binds (i : N) (g : list N) : bool := existsb (fun t => implements t i) g.
Definition bind_groups (i : N) (prv : list (list N)) : list (list N) := map (fun g => if binds i g then g ++ [i] else g) prv.

(* error codes continue Gen's: 8 a Bind that binds nothing, 9 a Set where a provider is expected *)
Fixpoint decode (e : pexpr) : result prov :=
  match e with
  | XProvide ps rs => OK (mkfn ps (map (fun t => [t]) (filter (fun t => negb (is_err t)) rs)) (existsb is_err rs) false)
  | XValue t => OK (mkfn [] [[t]] false false)
  | XStruct t => OK (mkstruct t (fields_of t))
  | XAsync e => match decode e with OK p => OK (set_async p) | Err c => Err c end
  | XBind i e => match decode e with
                 | OK p => if existsb (binds i) (provides p) || isstruct p then OK (set_provides p (bind_groups i (provides p))) else Err 8
                 | Err c => Err c
                 end
  | XSet _ => Err 9
  end.

(* the argument list of Inject / Set: providers in the order written, the contents of a Set in its place *)
Definition cat (r1 r2 : result (list prov)) : result (list prov) :=
  match r1, r2 with OK a, OK b => OK (a ++ b) | Err c, _ => Err c | _, Err c => Err c end.
Definition flats (f : pexpr -> result (list prov)) : list pexpr -> result (list prov) :=
  fix go (l : list pexpr) : result (list prov) := match l with [] => OK [] | x :: r => cat (f x) (go r) end.
Fixpoint flat (e : pexpr) : result (list prov) :=
  match e with
  | XSet es => flats flat es
  | _ => match decode e with OK p => OK [p] | Err c => Err c end
  end.
(* kessoku.Bind[I](kessoku.Struct[T]()): the interface is supplied by whatever supplies the struct (graph.go, second pass:
   fnProviderMap[I] = fnProviderMap[T]). In the flat list this is the struct's source provider with I added to the result
   group that holds T - as if the Bind had been written around that provider. (A source that is itself a field of another
   expanded struct has no entry of its own in the list: the binding is then left on the struct provider, where Gen ignores
   it - a shape the correspondence does not produce.) *)
Definition has_type (t : N) (g : list N) : bool := existsb (N.eqb t) g.
Definition struct_extras (p : prov) : list N := if isstruct p then match provides p with (_ :: extras) :: _ => extras | _ => [] end else [].
Definition struct_type (p : prov) : N := match requires p with t :: _ => t | [] => 0%N end.
Definition add_to_group (t : N) (extras : list N) (p : prov) : prov :=
  set_provides p (map (fun g => if has_type t g then g ++ extras else g) (provides p)).
(* the first provider function that provides t receives the extras *)
Fixpoint give (t : N) (extras : list N) (l : list prov) : option (list prov) :=
  match l with
  | [] => None
  | p :: r => if negb (isstruct p) && existsb (has_type t) (provides p) then Some (add_to_group t extras p :: r)
              else option_map (cons p) (give t extras r)
  end.
Definition strip (p : prov) : prov := if isstruct p then set_provides p [[struct_type p]] else p.
Fixpoint attach (todo : list prov) (l : list prov) : list prov :=
  match todo with
  | [] => l
  | s :: r => match struct_extras s with
              | [] => attach r l
              | extras => match give (struct_type s) extras l with
                          | Some l' => attach r (map (fun q => if isstruct q && N.eqb (struct_type q) (struct_type s) then strip q else q) l')
                          | None => attach r l
                          end
              end
  end.
Definition parse_flat (es : list pexpr) : result (list prov) := flats flat es.
Definition parse (es : list pexpr) : result (list prov) :=
  match parse_flat es with OK l => OK (attach l l) | Err c => Err c end.

(* ------------------------------------------------------------------ what the wrappers do, and only that *)
Lemma decode_async_flag e p : decode e = OK p -> decode (XAsync e) = OK (set_async p).
Proof. intro H. simpl. rewrite H. reflexivity. Qed.

Lemma set_async_fields p : requires (set_async p) = requires p /\ provides (set_async p) = provides p /\ fallible (set_async p) = fallible p /\
  isstruct (set_async p) = isstruct p /\ sfields (set_async p) = sfields p /\ async (set_async p) = true.
Proof. repeat split. Qed.

(* Async and Bind may be nested either way round *)
Theorem async_bind_commute i e : decode (XAsync (XBind i e)) = decode (XBind i (XAsync e)).
Proof.
  simpl. destruct (decode e) as [p|c]; [|reflexivity]. simpl.
  destruct (existsb (binds i) (provides p) || isstruct p); reflexivity.
Qed.

(* a Bind changes nothing but the result groups: each keeps its types, in order, and gains the interface exactly when one
   of its types implements it *)
Theorem bind_effect i e p q : decode e = OK p -> decode (XBind i e) = OK q ->
  requires q = requires p /\ fallible q = fallible p /\ async q = async p /\ isstruct q = isstruct p /\ sfields q = sfields p /\
  length (provides q) = length (provides p) /\
  forall k g, nth_error (provides p) k = Some g -> nth_error (provides q) k = Some (if binds i g then g ++ [i] else g).
Proof.
  intros Hp Hq. simpl in Hq. rewrite Hp in Hq. destruct (existsb (binds i) (provides p) || isstruct p); [|discriminate].
  injection Hq as <-. simpl. repeat split; auto.
  - unfold bind_groups. rewrite map_length. reflexivity.
  - intros k g Hk. unfold bind_groups. rewrite nth_error_map, Hk. reflexivity.
Qed.

(* a provider function: its parameters are the requirements in order, every non-error result is a group of its own, in
   order, and it is fallible exactly when it has an error result *)
Theorem provide_effect ps rs p : decode (XProvide ps rs) = OK p ->
  requires p = ps /\ provides p = map (fun t => [t]) (filter (fun t => negb (is_err t)) rs) /\
  (fallible p = true <-> In errty rs) /\ async p = false /\ isstruct p = false.
Proof.
  simpl. intro H. injection H as <-. simpl. repeat split; auto.
  - intro E. apply existsb_exists in E. destruct E as (t & Ht & Et). apply N.eqb_eq in Et. subst. exact Ht.
  - intro Hin. apply existsb_exists. exists errty. split; auto. apply N.eqb_refl.
Qed.

(* ------------------------------------------------------------------ Sets only group *)
Lemma cat_assoc a b c : cat (cat a b) c = cat a (cat b c).
Proof. destruct a as [x|e], b as [y|e'], c as [z|e'']; simpl; try reflexivity. rewrite app_assoc. reflexivity. Qed.
Lemma cat_nil_r a : cat a (OK []) = a.
Proof. destruct a; simpl; auto. rewrite app_nil_r. reflexivity. Qed.
Lemma flats_app f a b : flats f (a ++ b) = cat (flats f a) (flats f b).
Proof.
  induction a as [|x r IH]; simpl.
  - destruct (flats f b); reflexivity.
  - rewrite IH. rewrite cat_assoc. reflexivity.
Qed.

(* a Set - inline or a variable, at any depth - stands for its contents in its place *)
Lemma set_is_grouping_flat a es b : parse_flat (a ++ [XSet es] ++ b) = parse_flat (a ++ es ++ b).
Proof.
  unfold parse_flat. rewrite !flats_app. f_equal. f_equal. simpl. apply cat_nil_r.
Qed.
Theorem set_is_grouping a es b : parse (a ++ [XSet es] ++ b) = parse (a ++ es ++ b).
Proof. unfold parse. rewrite set_is_grouping_flat. reflexivity. Qed.
Corollary set_of_everything es : parse [XSet es] = parse es.
Proof. pose proof (set_is_grouping [] es []) as H. simpl in H. rewrite app_nil_r in H. exact H. Qed.

(* the flat list has one provider per provider expression, in the order written *)
Fixpoint leaves (e : pexpr) : list pexpr :=
  match e with
  | XSet es => (fix go (l : list pexpr) := match l with [] => [] | x :: r => leaves x ++ go r end) es
  | _ => [e]
  end.
Definition leaves_l (es : list pexpr) : list pexpr := (fix go (l : list pexpr) := match l with [] => [] | x :: r => leaves x ++ go r end) es.
Lemma cat_ok_inv r1 r2 l : cat r1 r2 = OK l -> exists a b, r1 = OK a /\ r2 = OK b /\ l = a ++ b.
Proof. destruct r1 as [a|c], r2 as [b|c']; simpl; intro H; try discriminate. injection H as <-. eauto. Qed.

Section LeafInd.
Variable P : pexpr -> Prop.
Hypothesis Hleaf : forall e, (forall es, e <> XSet es) -> P e.
Hypothesis Hset : forall es, Forall P es -> P (XSet es).
Fixpoint pexpr_ind2 (e : pexpr) : P e :=
  match e with
  | XSet es => Hset es ((fix go (l : list pexpr) : Forall P l := match l with [] => Forall_nil P | x :: r => Forall_cons x (pexpr_ind2 x) (go r) end) es)
  | XProvide ps rs => Hleaf (XProvide ps rs) (fun es H => match H with eq_refl => I end)
  | XValue t => Hleaf (XValue t) (fun es H => match H with eq_refl => I end)
  | XStruct t => Hleaf (XStruct t) (fun es H => match H with eq_refl => I end)
  | XAsync x => Hleaf (XAsync x) (fun es H => match H with eq_refl => I end)
  | XBind i x => Hleaf (XBind i x) (fun es H => match H with eq_refl => I end)
  end.
End LeafInd.

Theorem flat_leaves : forall e l, flat e = OK l -> Forall2 (fun x p => decode x = OK p) (leaves e) l.
Proof.
  intro e. induction e as [e Hne|es HF] using pexpr_ind2; intros l Hfl.
  - destruct e as [ps rs|t|t|x|i x|es]; try (cbn [flat] in Hfl; match type of Hfl with context [decode ?x] => destruct (decode x) as [p|c] eqn:D end; [|discriminate]; injection Hfl as <-; cbn [leaves]; constructor; [exact D|constructor]).
    exfalso. eapply Hne. reflexivity.
  - simpl in Hfl. revert l Hfl. induction HF as [|x r Hx Hr IH]; intros l Hl; simpl in *.
    + injection Hl as <-. constructor.
    + apply cat_ok_inv in Hl. destruct Hl as (a & b & Ha & Hb & ->). apply Forall2_app; [apply Hx; exact Ha|apply IH; exact Hb].
Qed.
Theorem parse_flat_leaves es l : parse_flat es = OK l -> Forall2 (fun x p => decode x = OK p) (leaves_l es) l.
Proof. intro H. apply (flat_leaves (XSet es) l). exact H. Qed.

(* attaching the interfaces bound to Struct expansions changes result groups only: the list keeps its length, every
   provider its requirements, marks, kind and fields *)
Definition same_but_provides (p q : prov) : Prop :=
  requires q = requires p /\ fallible q = fallible p /\ async q = async p /\ isstruct q = isstruct p /\ sfields q = sfields p /\
  isfield q = isfield p /\ fname q = fname p.
Lemma sbp_refl p : same_but_provides p p. Proof. repeat split. Qed.
Lemma sbp_trans p q r : same_but_provides p q -> same_but_provides q r -> same_but_provides p r.
Proof. unfold same_but_provides. intros (A1 & A2 & A3 & A4 & A5 & A6 & A7) (B1 & B2 & B3 & B4 & B5 & B6 & B7). repeat split; congruence. Qed.
Lemma sbp_set_provides p g : same_but_provides p (set_provides p g). Proof. repeat split. Qed.
Lemma sbp_strip p : same_but_provides p (strip p). Proof. unfold strip. destruct (isstruct p); [apply sbp_set_provides|apply sbp_refl]. Qed.
Lemma give_shape t ex : forall l l', give t ex l = Some l' -> Forall2 same_but_provides l l'.
Proof.
  induction l as [|p r IH]; intros l' H; simpl in H; [discriminate|].
  destruct (negb (isstruct p) && existsb (has_type t) (provides p)).
  - injection H as <-. constructor; [apply sbp_set_provides|]. clear. induction r; constructor; auto using sbp_refl.
  - destruct (give t ex r) as [r'|] eqn:G; [|discriminate]. injection H as <-. constructor; [apply sbp_refl|apply IH; reflexivity].
Qed.
Lemma Forall2_sbp_refl l : Forall2 same_but_provides l l.
Proof. induction l; constructor; auto using sbp_refl. Qed.
Lemma Forall2_sbp_trans a b c : Forall2 same_but_provides a b -> Forall2 same_but_provides b c -> Forall2 same_but_provides a c.
Proof.
  intro H. revert c. induction H as [|x y a b Hxy Hab IH]; intros c Hc; inversion Hc; subst; constructor; eauto using sbp_trans.
Qed.
Lemma Forall2_sbp_map (f : prov -> prov) l : (forall q, same_but_provides q (f q)) -> Forall2 same_but_provides l (map f l).
Proof. intro Hf. induction l; simpl; constructor; auto. Qed.
(* where the interfaces go: the first provider function one of whose result groups holds the struct type; that group (every
   group holding the type) gains them, nothing before or behind that provider changes *)
Lemma give_spec t ex : forall l l', give t ex l = Some l' ->
  exists k p, nth_error l k = Some p /\ isstruct p = false /\ existsb (has_type t) (provides p) = true /\
              (forall j q, j < k -> nth_error l j = Some q -> isstruct q = true \/ existsb (has_type t) (provides q) = false) /\
              nth_error l' k = Some (add_to_group t ex p) /\ (forall j, j <> k -> nth_error l' j = nth_error l j).
Proof.
  induction l as [|p r IH]; intros l' H; simpl in H; [discriminate|].
  destruct (negb (isstruct p) && existsb (has_type t) (provides p)) eqn:C.
  - injection H as <-. apply andb_prop in C. destruct C as (C1 & C2). apply negb_true_iff in C1.
    exists 0, p. repeat split; auto.
    + intros j q Hj. lia.
    + intros j Hj. destruct j; [congruence|reflexivity].
  - destruct (give t ex r) as [r'|] eqn:G; [|discriminate]. injection H as <-.
    destruct (IH r' eq_refl) as (k & q & Hk & Hs & He & Hbefore & Hat & Hother).
    exists (S k), q. repeat split; auto.
    + intros j q0 Hj Hq. destruct j as [|j]; simpl in Hq.
      * injection Hq as <-. apply andb_false_iff in C. destruct C as [C|C]; [left; apply negb_false_iff; exact C|right; exact C].
      * apply (Hbefore j q0); [lia|exact Hq].
    + intros j Hj. destruct j as [|j]; simpl; [reflexivity|]. apply Hother. lia.
Qed.
Lemma add_to_group_spec t ex p g : In g (provides p) -> has_type t g = true -> In (g ++ ex)%list (provides (add_to_group t ex p)).
Proof.
  intros Hin Ht. unfold add_to_group. simpl. apply in_map_iff. exists g. rewrite Ht. split; auto.
Qed.

Theorem attach_shape : forall todo l, Forall2 same_but_provides l (attach todo l).
Proof.
  induction todo as [|s r IH]; intro l; simpl; [apply Forall2_sbp_refl|].
  destruct (struct_extras s) as [|e es]; [apply IH|].
  destruct (give (struct_type s) (e :: es) l) as [l'|] eqn:G; [|apply IH].
  eapply Forall2_sbp_trans; [apply (give_shape _ _ _ _ G)|].
  eapply Forall2_sbp_trans; [|apply IH].
  apply Forall2_sbp_map. intro q. destruct (isstruct q && N.eqb (struct_type q) (struct_type s)); [apply sbp_strip|apply sbp_refl].
Qed.
Theorem parse_shape es l : parse es = OK l -> exists l0, parse_flat es = OK l0 /\ Forall2 same_but_provides l0 l /\
  Forall2 (fun x p => decode x = OK p) (leaves_l es) l0.
Proof.
  unfold parse. destruct (parse_flat es) as [l0|c] eqn:P; [|discriminate]. intro H. injection H as <-.
  exists l0. split; auto. split; [apply attach_shape|apply parse_flat_leaves; exact P].
Qed.
End Parse.

(* ------------------------------------------------------------------ the correspondence's entry point *)
Definition impl_of (tbl : list (N * N)) (t i : N) : bool := existsb (fun x => N.eqb (fst x) t && N.eqb (snd x) i) tbl.
Definition fields_tbl (tbl : list (N * list (N * N))) (t : N) : list (N * N) := match assoc t tbl with Some l => l | None => [] end.
(* the declaration NewGraph sees for a written argument list; an argument list that does not decode has no providers *)
Definition decl_of_tree (ret : N) (impl : list (N * N)) (errty : N) (ftbl : list (N * list (N * N))) (es : list pexpr) : decl :=
  {| d_ret := ret; d_provs := match parse (impl_of impl) errty (fields_tbl ftbl) es with OK l => l | Err _ => [] end |}.

Definition listN_eqb (a b : list N) : bool := (length a =? length b) && forallb (fun xy => N.eqb (fst xy) (snd xy)) (combine a b).
Definition prov_eqb (p q : prov) : bool :=
  listN_eqb (requires p) (requires q) &&
  (length (provides p) =? length (provides q)) && forallb (fun xy => listN_eqb (fst xy) (snd xy)) (combine (provides p) (provides q)) &&
  Bool.eqb (fallible p) (fallible q) && Bool.eqb (isstruct p) (isstruct q) && (isstruct p || Bool.eqb (async p) (async q)) &&
  listN_eqb (map fst (sfields p)) (map fst (sfields q)) && listN_eqb (map snd (sfields p)) (map snd (sfields q)).
(* 0: the written form decodes to the harness's own flat provider list (the Async mark of a Struct expansion, which has
   no effect, aside); 41 otherwise *)
Definition tree_code (d : decl) (flat : decl) : nat :=
  if N.eqb (d_ret d) (d_ret flat) && (length (d_provs d) =? length (d_provs flat)) &&
     forallb (fun xy => prov_eqb (fst xy) (snd xy)) (combine (d_provs d) (d_provs flat)) then 0 else 41.

Example decode_example :
  parse (impl_of [(1, 7)]%N) 99%N (fields_tbl [(5%N, [(1, 6)]%N)])
        [XSet [XAsync (XBind 7%N (XProvide [2]%N [1; 99]%N)); XSet [XValue 2%N]]; XStruct 5%N] =
  OK [mkfn [2]%N [[1; 7]]%N true true; mkfn [] [[2]]%N false false; mkstruct 5%N [(1, 6)]%N].
Proof. vm_compute. reflexivity. Qed.

(* Bind over a Struct expansion: the interface joins the struct's source; a second supplier of the interface is then a
   duplicate like any other *)
Example bind_struct_example :
  parse (impl_of [(5, 7)]%N) 99%N (fields_tbl [(5%N, [(1, 6)]%N)]) [XProvide [] [3; 5]%N; XBind 7%N (XStruct 5%N)] =
  OK [mkfn [] [[3]; [5; 7]]%N false false; mkstruct 5%N [(1, 6)]%N].
Proof. vm_compute. reflexivity. Qed.
