(* C09: duplicate suppliers and orphan Struct expansions are refused by the model of NewGraph's two passes. *)
From Coq Require Import List Arith Lia Bool NArith.
Import ListNotations.
Require Import Gen GenSound.

Lemma assoc_snoc_neq {A} t k (v : A) l : t <> k -> Gen.assoc t (l ++ [(k, v)]) = Gen.assoc t l.
Proof.
  intros N0. induction l as [|[a b] r IH]; simpl.
  - destruct (N.eqb_spec t k); [contradiction|reflexivity].
  - destruct (N.eqb t a); auto.
Qed.
Lemma assoc_mono_snoc {A} t k (v w : A) l : Gen.assoc t l = Some w -> Gen.assoc t (l ++ [(k, v)]) = Some w.
Proof. apply assoc_app_some. Qed.

(* add_group: on success every listed type maps to this provider, and older entries are kept; the only failure is code 1 *)
Lemma add_group_spec pi gi : forall ts pm,
  match Gen.add_group pm pi gi ts with
  | OK pm' => (forall t, In t ts -> exists g, Gen.assoc t pm' = Some (pi, g)) /\ (forall t v, Gen.assoc t pm = Some v -> Gen.assoc t pm' = Some v)
  | Err e => e = 1
  end.
Proof.
  induction ts as [|t r IH]; intros pm; simpl; [split; [intros t []|auto]|].
  destruct (Gen.assoc t pm) as [[pj gj]|] eqn:E.
  - destruct (Nat.eqb_spec pi pj) as [->|Hne].
    + specialize (IH pm). destruct (Gen.add_group pm pj gi r) as [pm'|e].
      * destruct IH as (A & B). split; auto. intros t0 [<-|H0]; [exists gj; apply B; exact E | apply A; exact H0].
      * exact IH.
    + reflexivity.
  - specialize (IH (pm ++ [(t, (pi, gi))])). destruct (Gen.add_group (pm ++ [(t, (pi, gi))]) pi gi r) as [pm'|e].
    + destruct IH as (A & B). split.
      * intros t0 [<-|H0]; [exists gi; apply B; rewrite (assoc_app_none t pm _ E); simpl; rewrite N.eqb_refl; reflexivity | apply A; exact H0].
      * intros t0 v H0. apply B. apply assoc_app_some. exact H0.
    + exact IH.
Qed.
Lemma add_group_ok pm pi gi ts pm' : Gen.add_group pm pi gi ts = OK pm' ->
  (forall t, In t ts -> exists g, Gen.assoc t pm' = Some (pi, g)) /\ (forall t v, Gen.assoc t pm = Some v -> Gen.assoc t pm' = Some v).
Proof. intros H. pose proof (add_group_spec pi gi ts pm) as S. rewrite H in S. exact S. Qed.
Lemma add_group_err pm pi gi ts e : Gen.add_group pm pi gi ts = Err e -> e = 1.
Proof. intros H. pose proof (add_group_spec pi gi ts pm) as S. rewrite H in S. exact S. Qed.

Lemma add_groups_ok pi : forall gs gi pm pm', Gen.add_groups pm pi gi gs = OK pm' ->
  (forall g t, In g gs -> In t g -> exists gi', Gen.assoc t pm' = Some (pi, gi')) /\ (forall t v, Gen.assoc t pm = Some v -> Gen.assoc t pm' = Some v).
Proof.
  induction gs as [|g r IH]; intros gi pm pm' H; simpl in H; [inversion H; subst; split; [intros g t []|auto]|].
  destruct (Gen.add_group pm pi gi g) as [pm1|e] eqn:E; [|discriminate]. destruct (add_group_ok _ _ _ _ _ E) as (A1 & B1).
  destruct (IH _ _ _ H) as (A2 & B2). split.
  - intros g0 t [<-|Hg] Ht; [destruct (A1 t Ht) as (x & Hx); exists x; apply B2; exact Hx | eapply A2; eauto].
  - intros t v H0. apply B2. apply B1. exact H0.
Qed.
Lemma add_groups_err pi : forall gs gi pm e, Gen.add_groups pm pi gi gs = Err e -> e = 1.
Proof.
  induction gs as [|g r IH]; intros gi pm e H; simpl in H; [discriminate|].
  destruct (Gen.add_group pm pi gi g) as [pm1|e1] eqn:E; [eapply IH; eauto | inversion H; subst; eapply add_group_err; eauto].
Qed.

(* first pass: every type of every non-struct provider maps to that provider's index *)
Lemma pass1_ok : forall ps pi pm pm', Gen.pass1 pm pi ps = OK pm' ->
  (forall k p g t, nth_error ps k = Some p -> Gen.isstruct p = false -> In g (Gen.provides p) -> In t g -> exists gi, Gen.assoc t pm' = Some (pi + k, gi)) /\
  (forall t v, Gen.assoc t pm = Some v -> Gen.assoc t pm' = Some v).
Proof.
  induction ps as [|p r IH]; intros pi pm pm' H; simpl in H; [inversion H; subst; split; [intros k p g t Hk; destruct k; discriminate|auto]|].
  destruct (Gen.isstruct p) eqn:Es.
  - destruct (IH _ _ _ H) as (A & B). split; auto. intros k p0 g t Hk Hs Hg Ht. destruct k as [|k]; simpl in Hk.
    + inversion Hk; subst. congruence.
    + destruct (A k p0 g t Hk Hs Hg Ht) as (gi & Hgi). exists gi. rewrite Hgi. f_equal. f_equal. lia.
  - destruct (Gen.add_groups pm pi 0 (Gen.provides p)) as [pm1|e] eqn:E; [|discriminate].
    destruct (add_groups_ok _ _ _ _ _ E) as (A1 & B1). destruct (IH _ _ _ H) as (A & B). split.
    + intros k p0 g t Hk Hs Hg Ht. destruct k as [|k]; simpl in Hk.
      * inversion Hk; subst. destruct (A1 g t Hg Ht) as (gi & Hgi). exists gi. rewrite Nat.add_0_r. apply B. exact Hgi.
      * destruct (A k p0 g t Hk Hs Hg Ht) as (gi & Hgi). exists gi. rewrite Hgi. f_equal. f_equal. lia.
    + intros t v H0. apply B. apply B1. exact H0.
Qed.
Lemma pass1_err : forall ps pi pm e, Gen.pass1 pm pi ps = Err e -> e = 1.
Proof.
  induction ps as [|p r IH]; intros pi pm e H; simpl in H; [discriminate|].
  destruct (Gen.isstruct p); [eapply IH; eauto|].
  destruct (Gen.add_groups pm pi 0 (Gen.provides p)) as [pm1|e1] eqn:E; [eapply IH; eauto | inversion H; subst; eapply add_groups_err; eauto].
Qed.

(* two different function/value/bind providers supplying one type (a bound interface counts: it is in the result group):
   the first pass fails, with the "multiple providers" code *)
Theorem dup_providers_refused ps k k' p p' g g' t :
  nth_error ps k = Some p -> nth_error ps k' = Some p' -> k <> k' -> Gen.isstruct p = false -> Gen.isstruct p' = false ->
  In g (Gen.provides p) -> In t g -> In g' (Gen.provides p') -> In t g' -> Gen.pass1 [] 0 ps = Err 1.
Proof.
  intros Hk Hk' Hne Hs Hs' Hg Ht Hg' Ht'. destruct (Gen.pass1 [] 0 ps) as [pm'|e] eqn:E.
  - exfalso. destruct (pass1_ok _ _ _ _ E) as (A & _).
    destruct (A k p g t Hk Hs Hg Ht) as (gi & H1). destruct (A k' p' g' t Hk' Hs' Hg' Ht') as (gi' & H2). simpl in H1, H2. congruence.
  - f_equal. eapply pass1_err; eauto.
Qed.

(* an expanded struct field whose type already has a supplier (a provider, a bound interface, a field of another struct,
   or an earlier field of the same struct) is refused with the same code *)
Theorem dup_field_refused pm provs st f r : Gen.assoc (snd f) pm <> None -> Gen.add_fields pm provs st (f :: r) = Err 1.
Proof. intros H. simpl. destruct (Gen.assoc (snd f) pm); [reflexivity|congruence]. Qed.
Theorem two_equal_fields_refused pm provs st f f' : snd f = snd f' -> Gen.assoc (snd f) pm = None -> Gen.add_fields pm provs st [f; f'] = Err 1.
Proof.
  intros E H. simpl. rewrite H. rewrite <- E. rewrite (assoc_app_none (snd f) pm _ H). simpl. rewrite N.eqb_refl. reflexivity.
Qed.

(* a Struct expansion whose struct type nobody supplies is refused with the "no provider for struct type" code *)
Theorem orphan_struct_refused pm provs s st r : hd_error (Gen.requires s) = Some st -> Gen.assoc st pm = None ->
  Gen.has_field_of st r = false -> Gen.pass2 pm provs (s :: r) = Err 2.
Proof. intros H1 H2 H3. unfold Gen.pass2. cbn [Gen.pass2_loop]. rewrite H1, H2, H3. reflexivity. Qed.

(* More generally, wherever the orphan stands among the Struct expansions: as long as its struct type is supplied by
   nobody - no provider, and no field of any struct waiting to be expanded - the declaration is never accepted. *)
Lemma add_fields_assoc_none st0 t : forall fs pm provs pm' provs', Gen.add_fields pm provs st0 fs = OK (pm', provs') ->
  Gen.assoc t pm = None -> existsb (fun f : N * N => N.eqb (snd f) t) fs = false -> Gen.assoc t pm' = None.
Proof.
  induction fs as [|f r IH]; intros pm provs pm' provs' H A E; simpl in H; [inversion H; subst; exact A|].
  destruct (Gen.assoc (snd f) pm); [discriminate|]. simpl in E. apply orb_false_iff in E. destruct E as (E1 & E2).
  eapply IH; [exact H| |exact E2]. rewrite (assoc_app_none t pm _ A). simpl. rewrite N.eqb_sym in E1. rewrite E1. reflexivity.
Qed.
Lemma has_field_of_app st a b : Gen.has_field_of st (a ++ b) = Gen.has_field_of st a || Gen.has_field_of st b.
Proof. unfold Gen.has_field_of. apply existsb_app. Qed.
Lemma orphan_never_accepted st : forall fuel pm provs ss k,
  Gen.assoc st pm = None -> Gen.has_field_of st ss = false ->
  (exists s, In s ss /\ hd_error (Gen.requires s) = Some st) ->
  forall r, Gen.pass2_loop fuel pm provs ss k <> OK r.
Proof.
  induction fuel as [|fuel IH]; intros pm provs ss k A F (s0 & Hin & Hs0) res; simpl; [discriminate|].
  destruct ss as [|s r]; [destruct Hin|].
  unfold Gen.has_field_of in F. cbn [existsb] in F. apply orb_false_iff in F. destruct F as (Fs & Fr). fold (Gen.has_field_of st r) in Fr.
  destruct (hd_error (Gen.requires s)) as [t|] eqn:Eh; [|discriminate].
  destruct (Gen.assoc t pm) eqn:At.
  - destruct (Gen.add_fields pm provs t (Gen.sfields s)) as [[pm1 provs1]|e] eqn:Af; [|discriminate].
    destruct Hin as [->|Hin]; [rewrite Hs0 in Eh; inversion Eh; subst t; congruence|].
    apply IH; [eapply add_fields_assoc_none; eauto | exact Fr | exists s0; auto].
  - destruct (Gen.has_field_of t r && Nat.leb k (length r)); [|discriminate].
    apply IH; [exact A| |].
    + rewrite has_field_of_app, Fr. unfold Gen.has_field_of. cbn [existsb]. rewrite Fs. reflexivity.
    + exists s0. split; [|exact Hs0]. destruct Hin as [->|Hin]; apply in_or_app; [right; left; auto|left; auto].
Qed.
Theorem orphan_struct_never_accepted pm provs ss s st : In s ss -> hd_error (Gen.requires s) = Some st ->
  Gen.assoc st pm = None -> Gen.has_field_of st ss = false -> forall r, Gen.pass2 pm provs ss <> OK r.
Proof. intros Hin Hs A F r. unfold Gen.pass2. apply (orphan_never_accepted st); eauto. Qed.

(* ---------------- the retrying second pass never runs out of fuel ---------------- *)
Lemma add_fields_err st : forall fs pm provs e, Gen.add_fields pm provs st fs = Err e -> e = 1.
Proof.
  induction fs as [|f r IH]; intros pm provs e H; simpl in H; [discriminate|].
  destruct (Gen.assoc (snd f) pm); [inversion H; reflexivity|]. eapply IH; eauto.
Qed.
Lemma pass2_loop_fuel : forall fuel pm provs ss k, k <= length ss -> length ss * (length ss + 3) + 1 <= fuel + 2 * k ->
  Gen.pass2_loop fuel pm provs ss k <> Err 4.
Proof.
  induction fuel as [|fuel IH]; intros pm provs ss k Hk Hf.
  - exfalso. nia.
  - simpl. destruct ss as [|s r]; [discriminate|]. cbn [length] in Hk, Hf.
    destruct (hd_error (Gen.requires s)); [|discriminate].
    destruct (Gen.assoc n pm).
    + destruct (Gen.add_fields pm provs n (Gen.sfields s)) as [[pm1 provs1]|e] eqn:Af.
      * apply IH; [lia|nia].
      * intro H. inversion H; subst e. apply add_fields_err in Af. discriminate.
    + destruct (Gen.has_field_of n r && Nat.leb k (length r)) eqn:C; [|discriminate].
      apply andb_true_iff in C. destruct C as (_ & C). apply Nat.leb_le in C.
      apply IH; rewrite app_length; cbn [length]; [lia|nia].
Qed.
Theorem pass2_fuel_suffices pm provs ss : Gen.pass2 pm provs ss <> Err 4.
Proof. unfold Gen.pass2. apply pass2_loop_fuel; [lia|nia]. Qed.
