(* Layer B o Layer A for ALL declarations: whenever the model of NewGraph accepts a declaration, the graph facts that
   Assembly.v assumes hold, hence buildStmts' model succeeds and the emitted thread program is well-synchronised and
   ranked (wfl). This closes the chain  declaration -> graph -> order -> pools -> items -> every schedule. *)
From Coq Require Import List Arith Lia Bool NArith.
Import ListNotations.
Require Import Gen Bfs Final1 Dfs Kahn Match Pool Sem2 Safe Live LiveInv Sched2 Threads Assembly Corr GenU.

(* ---------------- the provider map built by the two passes is well-formed ---------------- *)
Definition nprovides (provs : list Gen.prov) (pi : nat) : nat :=
  match nth_error provs pi with Some p => length (Gen.provides p) | None => 0 end.
Definition pm_good (pm : Gen.pmap) (provs : list Gen.prov) : Prop :=
  forall t pi gi, Gen.assoc t pm = Some (pi, gi) -> gi < nprovides provs pi.

Lemma assoc_app_some {A} t (l r : list (N * A)) v : Gen.assoc t l = Some v -> Gen.assoc t (l ++ r) = Some v.
Proof. induction l as [|[k x] l IH]; simpl; [discriminate|]. destruct (N.eqb t k); auto. Qed.
Lemma assoc_app_none {A} t (l r : list (N * A)) : Gen.assoc t l = None -> Gen.assoc t (l ++ r) = Gen.assoc t r.
Proof. induction l as [|[k x] l IH]; simpl; auto. destruct (N.eqb t k); [discriminate|auto]. Qed.

Lemma nprovides_app provs ext pi : pi < length provs -> nprovides (provs ++ ext) pi = nprovides provs pi.
Proof. intros H. unfold nprovides. rewrite nth_error_app1; auto. Qed.
Lemma pm_good_app pm provs ext : pm_good pm provs -> pm_good pm (provs ++ ext).
Proof.
  intros G t pi gi H. specialize (G t pi gi H). unfold nprovides in *.
  destruct (nth_error provs pi) as [p|] eqn:E; [|lia]. rewrite nth_error_app1 by (apply nth_error_Some; congruence). rewrite E. exact G.
Qed.

Lemma add_group_good provs pi gi : gi < nprovides provs pi -> forall ts pm pm', pm_good pm provs -> Gen.add_group pm pi gi ts = OK pm' -> pm_good pm' provs.
Proof.
  intros Hg. induction ts as [|t r IH]; intros pm pm' G H; simpl in H; [inversion H; subst; auto|].
  destruct (Gen.assoc t pm) as [[pj gj]|] eqn:E.
  - destruct (Nat.eqb pi pj); [eapply IH; eauto|discriminate].
  - eapply IH; [|exact H]. intros t0 p0 g0 H0. destruct (Gen.assoc t0 pm) as [v|] eqn:E0.
    + rewrite (assoc_app_some t0 pm _ v E0) in H0. inversion H0; subst. apply (G t0 p0 g0 E0).
    + rewrite (assoc_app_none t0 pm _ E0) in H0. simpl in H0. destruct (N.eqb t0 t); [inversion H0; subst; exact Hg|discriminate].
Qed.
Lemma add_groups_good provs pi : forall gs gi pm pm', (forall k, k < length gs -> gi + k < nprovides provs pi) ->
  pm_good pm provs -> Gen.add_groups pm pi gi gs = OK pm' -> pm_good pm' provs.
Proof.
  induction gs as [|g r IH]; intros gi pm pm' Hb G H; simpl in H; [inversion H; subst; auto|].
  destruct (Gen.add_group pm pi gi g) as [pm1|e] eqn:E; [|discriminate].
  eapply (IH (S gi)); [| |exact H].
  - intros k Hk. specialize (Hb (S k)). simpl in Hb. replace (S gi + k) with (gi + S k) by lia. apply Hb. lia.
  - eapply add_group_good; [|exact G|exact E]. specialize (Hb 0). simpl in Hb. rewrite Nat.add_0_r in Hb. apply Hb. lia.
Qed.
Lemma pass1_good : forall ps pre pm pm', Gen.pass1 pm (length pre) ps = OK pm' -> pm_good pm (pre ++ ps) -> pm_good pm' (pre ++ ps).
Proof.
  induction ps as [|p r IH]; intros pre pm pm' H G; simpl in H; [inversion H; subst; auto|].
  assert (E1 : pre ++ p :: r = (pre ++ [p]) ++ r) by (rewrite <- app_assoc; reflexivity).
  assert (L1 : S (length pre) = length (pre ++ [p])) by (rewrite app_length; simpl; lia).
  destruct (Gen.isstruct p).
  - rewrite E1. rewrite L1 in H. apply (IH (pre ++ [p]) pm pm' H). rewrite <- E1. exact G.
  - destruct (Gen.add_groups pm (length pre) 0 (Gen.provides p)) as [pm1|e] eqn:E; [|discriminate].
    rewrite E1. rewrite L1 in H. apply (IH (pre ++ [p]) pm1 pm' H). rewrite <- E1.
    eapply add_groups_good; [|exact G|exact E].
    intros k Hk. simpl. unfold nprovides. rewrite nth_error_app2 by lia. rewrite Nat.sub_diag. simpl. exact Hk.
Qed.

Lemma add_fields_good st : forall fs pm provs pm' provs', Gen.add_fields pm provs st fs = OK (pm', provs') -> pm_good pm provs ->
  pm_good pm' provs' /\ exists ext, provs' = provs ++ ext.
Proof.
  induction fs as [|f r IH]; intros pm provs pm' provs' H G; simpl in H; [inversion H; subst; split; auto; exists []; rewrite app_nil_r; auto|].
  destruct (Gen.assoc (snd f) pm) eqn:E; [discriminate|].
  destruct (IH _ _ _ _ H) as (G' & ext & Ex).
  - intros t0 p0 g0 H0. destruct (Gen.assoc t0 pm) as [v|] eqn:E0.
    + rewrite (assoc_app_some t0 pm _ v E0) in H0. inversion H0; subst. apply (pm_good_app pm provs [Gen.mkfield st f] G t0 p0 g0 E0).
    + rewrite (assoc_app_none t0 pm _ E0) in H0. simpl in H0. destruct (N.eqb t0 (snd f)); [|discriminate]. inversion H0; subst.
      unfold nprovides. rewrite nth_error_app2 by lia. rewrite Nat.sub_diag. simpl. lia.
  - split; auto. exists ([Gen.mkfield st f] ++ ext). rewrite Ex. rewrite <- app_assoc. reflexivity.
Qed.
(* Any property of (pm, provs) that every successful field expansion preserves holds of the result of the second pass,
   whatever the order in which the retrying loop ends up expanding the structs. *)
Lemma pass2_loop_preserves (Q : Gen.pmap -> list Gen.prov -> Prop) :
  (forall st fs pm provs pm' provs', Gen.add_fields pm provs st fs = OK (pm', provs') -> Q pm provs -> Q pm' provs') ->
  forall fuel pm provs ss k pm' provs', Gen.pass2_loop fuel pm provs ss k = OK (pm', provs') -> Q pm provs -> Q pm' provs'.
Proof.
  intros Step. induction fuel as [|fuel IH]; intros pm provs ss k pm' provs' H G; simpl in H; [discriminate|].
  destruct ss as [|s r]; [inversion H; subst; auto|].
  destruct (hd_error (Gen.requires s)) as [st|]; [|discriminate]. destruct (Gen.assoc st pm).
  - destruct (Gen.add_fields pm provs st (Gen.sfields s)) as [[pm1 provs1]|e] eqn:E; [|discriminate].
    eapply IH; [exact H|]. eapply Step; eauto.
  - destruct (Gen.has_field_of st r && Nat.leb k (length r)); [|discriminate]. eapply IH; eauto.
Qed.
Lemma pass2_preserves (Q : Gen.pmap -> list Gen.prov -> Prop) :
  (forall st fs pm provs pm' provs', Gen.add_fields pm provs st fs = OK (pm', provs') -> Q pm provs -> Q pm' provs') ->
  forall ss pm provs pm' provs', Gen.pass2 pm provs ss = OK (pm', provs') -> Q pm provs -> Q pm' provs'.
Proof. intros Step ss pm provs pm' provs' H. unfold Gen.pass2 in H. eapply pass2_loop_preserves; eauto. Qed.

Lemma pass2_good : forall ss pm provs pm' provs', Gen.pass2 pm provs ss = OK (pm', provs') -> pm_good pm provs -> pm_good pm' provs'.
Proof.
  intros ss pm provs pm' provs' H G. apply (pass2_preserves pm_good) with (ss := ss) (pm := pm) (provs := provs); auto.
  intros st fs pm0 provs0 pm1 provs1 E G0. destruct (add_fields_good _ _ _ _ _ _ E G0) as (G1 & _). exact G1.
Qed.

(* ---------------- the BFS only appends nodes ---------------- *)
Section Prefix.
Variable requires : nat -> list N.
Variable pm : N -> option (nat * nat).
Lemma resolve_prefix b t : exists ext, Bfs.nodes (fst (fst (Bfs.resolve pm b t))) = Bfs.nodes b ++ ext.
Proof.
  unfold Bfs.resolve. destruct (pm t) as [[pi gi]|].
  - destruct (Bfs.assocn pi (Bfs.pn b)); simpl; [exists []; rewrite app_nil_r; auto | eexists; reflexivity].
  - destruct (Bfs.assocN t (Bfs.an b)); simpl; [exists []; rewrite app_nil_r; auto | eexists; reflexivity].
Qed.
Lemma do_reqs_prefix : forall ts b n1 i, exists ext, Bfs.nodes (Bfs.do_reqs pm b n1 i ts) = Bfs.nodes b ++ ext.
Proof.
  induction ts as [|t r IH]; intros b n1 i; simpl; [exists []; rewrite app_nil_r; auto|].
  destruct (resolve_prefix b t) as (e1 & E1). destruct (Bfs.resolve pm b t) as [[b' n2] sx] eqn:R. simpl in E1.
  destruct (IH (Bfs.add_edge b' n2 sx n1 i) n1 (S i)) as (e2 & E2). simpl in E2. exists (e1 ++ e2). rewrite E2, E1, app_assoc. reflexivity.
Qed.
Lemma loop_prefix : forall fuel b vis b' vis', Bfs.loop requires pm fuel b vis = Some (b', vis') -> exists ext, Bfs.nodes b' = Bfs.nodes b ++ ext.
Proof.
  induction fuel as [|fuel IH]; intros b vis b' vis' H; simpl in H; [discriminate|].
  destruct (Bfs.queue b) as [|n1 q]; [inversion H; subst; exists []; rewrite app_nil_r; auto|].
  destruct (Bfs.memn n1 vis); [apply IH in H; simpl in H; exact H|].
  cbn [Bfs.nodes] in H. destruct (nth_error (Bfs.nodes b) n1) as [[t|pi]|].
  - apply IH in H. simpl in H. exact H.
  - apply IH in H. destruct H as (e2 & E2). destruct (do_reqs_prefix (requires pi) {| Bfs.nodes := Bfs.nodes b; red := red b; out := out b; pn := pn b; an := an b; queue := q |} n1 0) as (e1 & E1).
    simpl in E1. exists (e1 ++ e2). rewrite E2, E1, app_assoc. reflexivity.
  - apply IH in H. simpl in H. exact H.
Qed.
End Prefix.

(* ---------------- acyclic finite graphs have a node without requirements ---------------- *)
Lemma exists_root (nn : nat) (nreq : nat -> nat) (src : nat -> nat -> nat) (rank0 : nat -> nat) :
  (forall c i, c < nn -> i < nreq c -> src c i < nn) -> (forall c i, c < nn -> i < nreq c -> rank0 (src c i) < rank0 c) ->
  forall k c, c < nn -> rank0 c <= k -> exists v, v < nn /\ nreq v = 0.
Proof.
  intros Hs Hr. induction k as [|k IH]; intros c Hc Hk.
  - destruct (nreq c) eqn:E; [eauto|]. specialize (Hr c 0 Hc). rewrite E in Hr. specialize (Hr (Nat.lt_0_succ _)). lia.
  - destruct (nreq c) eqn:E; [eauto|]. apply (IH (src c 0)); [apply Hs; auto; lia|]. specialize (Hr c 0 Hc). rewrite E in Hr. specialize (Hr (Nat.lt_0_succ _)). lia.
Qed.

(* ---------------- the theorem ---------------- *)
Definition reterr_of (g : ugraph) : bool := existsb (ufall g) (seq 0 (nn g)).
Definition uprog (g : ugraph) (st : Threads.bst) : prog :=
  prog_of (nn g) (uouts g) (unreq g) (usrc g) (usidx g) (unprov g) (uisarg g) (uisasync g) (ufall g) (unp g) (reterr_of g) st.

Theorem gen_sound : forall d g, unew_graph d = OK g ->
  exists st, Threads.build (unp g) (upool g) (udeps g) (uisasync g) (uargs g) = Some st /\
             wfl (uprog g st) (Sched2.rk (nn g) (uouts g) (unreq g)).
Proof.
  intros d g H. unfold unew_graph in H.
  destruct (Gen.pass1 [] 0 (Gen.d_provs d)) as [pm1|e] eqn:P1; [|discriminate].
  destruct (Gen.pass2 pm1 (Gen.d_provs d) (filter Gen.isstruct (Gen.d_provs d))) as [[pm provs]|e] eqn:P2; [|discriminate].
  destruct (Gen.assoc (Gen.d_ret d) pm) as [[pi gi]|] eqn:Er; [|discriminate].
  set (req := fun pi0 => match nth_error provs pi0 with Some p => Gen.requires p | None => [] end) in *.
  set (b0 := {| Bfs.nodes := [Bfs.NProv pi]; red := fun _ => []; out := fun _ => []; pn := []; an := []; queue := [0] |}) in *.
  destruct (Bfs.loop req (pm_of pm) (2 + 2 * (length provs + fold_right (fun p a => length (Gen.requires p) + a) 0 provs)) b0 []) as [[b vis]|] eqn:L; [|discriminate].
  destruct (Dfs.dfs_all (fun m => map fst (Bfs.out b m)) (S (length (Bfs.nodes b))) (seq 0 (length (Bfs.nodes b))) (fun _ => White) []) as [[c' fin']|] eqn:D; [|discriminate].
  inversion H; subst g. clear H.
  (* provider map *)
  assert (G1 : pm_good pm1 (Gen.d_provs d)).
  { apply (pass1_good (Gen.d_provs d) [] [] pm1 P1). intros t p0 g0 H0. discriminate. }
  assert (G : pm_good pm provs) by (eapply pass2_good; eauto).
  assert (PMOK : forall t p0 g0, pm_of pm t = Some (p0, g0) -> g0 < nprovides provs p0) by (intros t p0 g0 H0; apply (G t p0 g0 H0)).
  (* BFS invariant at the end *)
  destruct (Bfs.loop_inv req (pm_of pm) (nprovides provs) PMOK _ b0 [] b vis (Final1.b0_inv req (pm_of pm) (nprovides provs) pi) L) as (I & Q).
  destruct (loop_prefix req (pm_of pm) _ b0 [] b vis L) as (ext & Eext). simpl in Eext.
  set (g := {| ub := b; uprovs := provs; uret := gi |}).
  assert (Hnn : nn g = length (Bfs.nodes b)) by reflexivity.
  assert (OS : forall n c i, In (c, i) (uouts g n) <-> c < nn g /\ i < unreq g c /\ usrc g c i = n) by (intros; apply (Bfs.outs_src req (pm_of pm) (nprovides provs) b vis I)).
  assert (SL : forall c i, c < nn g -> i < unreq g c -> usrc g c i < nn g) by (intros; apply (Bfs.src_lt req (pm_of pm) (nprovides provs) b vis I); auto).
  assert (AL : forall n, uisarg g n = true -> n < nn g).
  { intros n Hn. unfold uisarg in Hn. simpl in Hn. destruct (nth_error (Bfs.nodes b) n) eqn:E; [|discriminate]. rewrite Hnn. apply nth_error_Some. congruence. }
  assert (AC : forall c i, c < nn g -> i < unreq g c -> posn (usrc g c i) fin' < posn c fin').
  { intros c i Hc Hi. apply (Dfs.acyclic_rank _ _ _ _ _ D); [apply SL; auto|]. apply in_map_iff. exists (c, i). split; auto. apply OS. auto. }
  apply (Assembly.emitted_wfl (nn g) (uouts g) (unreq g) (usrc g) (usidx g) (unprov g) (uisarg g) (uisasync g) (ufall g) (unp g) (reterr_of g)) with (rank0 := fun x => posn x fin').
  - exact OS.
  - intros n. apply (Bfs.outs_nodup req (pm_of pm) (nprovides provs) b vis I).
  - exact SL.
  - intros c i Hc Hi Ha. unfold uisarg in Ha. simpl in Ha.
    assert (Hs : usrc g c i < length (Bfs.nodes b)) by (apply SL; auto).
    destruct (nth_error (Bfs.nodes b) (usrc g c i)) as [[t|pj]|] eqn:E; [discriminate| |apply nth_error_None in E; exfalso; exact (Nat.lt_irrefl _ (Nat.lt_le_trans _ _ _ Hs E))].
    pose proof (Bfs.sidx_lt req (pm_of pm) (nprovides provs) b vis I c i pj Hc Hi E) as S1.
    assert (U : unprov g (usrc g c i) = nprovides provs pj).
    { unfold unprov, uprov, nprovides. change (Bfs.nodes (GenU.b g)) with (Bfs.nodes b). rewrite E. reflexivity. }
    rewrite U. exact S1.
  - exact AL.
  - exact AC.
  - (* at least one pool: the antichain bound counts the nodes without requirements *)
    unfold unp.
    assert (CL : forall u v, In v (map fst (uouts g u)) -> v < nn g).
    { intros u v Hv. apply in_map_iff in Hv. destruct Hv as ((c & i) & <- & Hin). apply OS in Hin. apply Hin. }
    assert (HD : forall v, {hasin (fun n => map fst (uouts g n)) v} + {~ hasin (fun n => map fst (uouts g n)) v}).
    { intros v. destruct (lt_dec v (nn g)) as [Hv|Hv]; [destruct (unreq g v) eqn:E|].
      - right. intros (u0 & Hin). apply in_map_iff in Hin. destruct Hin as ((c & i) & Ec & Hin). simpl in Ec. subst c. apply OS in Hin. lia.
      - left. exists (usrc g v 0). apply in_map_iff. exists (v, 0). split; auto. apply OS. repeat split; auto. lia.
      - right. intros (u0 & Hin). apply CL in Hin. contradiction. }
    pose proof (Match.antichain_ge_roots (nn g) (fun n => map fst (uouts g n)) CL HD) as B.
    assert (R : 0 < nroots (nn g) (fun n => map fst (uouts g n)) HD); [|lia].
    assert (H0 : 0 < nn g) by (rewrite Hnn, Eext; simpl; lia).
    destruct (exists_root (nn g) (unreq g) (usrc g) (fun x => posn x fin') SL AC (posn 0 fin') 0 H0 (le_n _)) as (v & Hv & Hz).
    unfold nroots. assert (Hin : In v (filter (fun v0 => if HD v0 then false else true) (seq 0 (nn g)))).
    { apply filter_In. split; [apply in_seq; lia|]. destruct (HD v) as [(u0 & Hu)|]; auto. apply in_map_iff in Hu. destruct Hu as ((c & i) & Ec & Hu). simpl in Ec. subst c. apply OS in Hu. lia. }
    destruct (filter _ (seq 0 (nn g))); [destruct Hin | simpl; lia].
  - exists 0. split; [rewrite Hnn, Eext; simpl; lia|]. unfold uisarg. simpl. fold (Bfs.nodes b). rewrite Eext. reflexivity.
Qed.
Print Assumptions gen_sound.

(* ---------------- what the correspondence compares IS the program the theorems are about ---------------- *)
Require Import CorrS.
Definition xsrc_of (g : ugraph) (x : nat * nat) : src :=
  match nth_error (Bfs.nodes (ub g)) (fst x) with
  | Some (Bfs.NArg t) => SArg t | Some (Bfs.NProv pi) => SVar pi (snd x) | None => SArg 0 end.
Definition xconv (g : ugraph) (it : Sem2.item) : xitem :=
  mkx (match nth_error (Bfs.nodes (ub g)) (Sem2.it_node it) with Some (Bfs.NProv pi) => pi | _ => 9999 end)
      (map (xsrc_of g) (Sem2.it_args it)) (map (xsrc_of g) (Sem2.it_waits it)) (map snd (Sem2.it_closes it))
      (ufall g (Sem2.it_node it)) (uisasync g (Sem2.it_node it)).

Theorem umodel_is_uprog : forall d g sg main gos, unew_graph d = OK g -> umodel d = XAcc sg main gos ->
  exists st, Threads.build (unp g) (upool g) (udeps g) (uisasync g) (uargs g) = Some st /\
             sg = usig g /\ main :: gos = map (map (xconv g)) (p_threads (uprog g st)).
Proof.
  intros d g sg main gos Hg Hm. unfold umodel in Hm. rewrite Hg in Hm. unfold uthreads in Hm.
  destruct (Threads.build (unp g) (upool g) (udeps g) (uisasync g) (uargs g)) as [st|] eqn:B; [|discriminate].
  exists st. split; auto.
  cbn [map] in Hm. injection Hm as E1 E2 E3. split; [auto|].
  unfold uprog, prog_of, Sched2.P. cbn [p_threads map]. rewrite <- E2, <- E3. rewrite !map_map. f_equal.
  apply map_ext. intros i. rewrite map_map. reflexivity.
Qed.
Print Assumptions umodel_is_uprog.
