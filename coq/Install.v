(* Model of internal/llmsetup/install.go: InstallFile as a list of primitive file-system steps, Install as a sequence
   of files, process death after any number of steps (with a torn write), a single failing step with the deferred
   cleanup, and a later re-run (C15).  Paths are abstract names; the file system is a map path -> (content, mode). *)
From Coq Require Import List Arith Lia Bool.
Import ListNotations.

Definition path := nat.
Definition content := list nat.
Definition mode := nat.
Definition fs := path -> option (content * mode).
Definition fset (s : fs) (p : path) (v : option (content * mode)) : fs := fun q => if Nat.eqb q p then v else s q.
Lemma fset_eq s p v : fset s p v p = v. Proof. unfold fset. rewrite Nat.eqb_refl. auto. Qed.
Lemma fset_neq s p v q : q <> p -> fset s p v q = s q. Proof. unfold fset. intros H. apply Nat.eqb_neq in H. rewrite H. auto. Qed.

Definition m600 := 384. Definition m644 := 420.

(* one file to install: destination, content, and the name CreateTemp picks (unused, chosen by the OS) *)
Record job := { dst : path; cnt : content; tmp : path }.

(* primitive steps of InstallFile, in program order: MkdirAll, CreateTemp, Write, Sync, Close, Chmod, Rename *)
Inductive stepk := SMkdir | SCreate | SWrite | SSync | SClose | SChmod | SRename.
Definition steps : list stepk := [SMkdir; SCreate; SWrite; SSync; SClose; SChmod; SRename].

Definition do_step (j : job) (k : stepk) (s : fs) : fs :=
  match k with
  | SMkdir | SSync | SClose => s
  | SCreate => fset s (tmp j) (Some ([], m600))
  | SWrite => fset s (tmp j) (Some (cnt j, m600))
  | SChmod => match s (tmp j) with Some (c, _) => fset s (tmp j) (Some (c, m644)) | None => s end
  | SRename => fset (fset s (dst j) (s (tmp j))) (tmp j) None
  end.
Definition run_steps (j : job) (ks : list stepk) (s : fs) : fs := fold_left (fun s k => do_step j k s) ks s.

(* the process dies after n complete steps of this file; dying inside Write leaves a prefix in the temp file *)
Definition crash_file (j : job) (n : nat) (torn : option nat) (s : fs) : fs :=
  let s' := run_steps j (firstn n steps) s in
  match torn, nth_error steps n with
  | Some len, Some SWrite => fset s' (tmp j) (Some (firstn len (cnt j), m600))
  | _, _ => s'
  end.

(* step n fails without a crash: the steps before it ran, the failing one had no effect (or wrote a prefix); the deferred
   function then closes the file if needed and, because an error is being returned, removes the temp file - provided
   CreateTemp had succeeded (n >= 2) *)
Definition fail_file (j : job) (n : nat) (torn : option nat) (s : fs) : fs :=
  let s' := crash_file j n torn s in
  if Nat.leb 2 n then fset s' (tmp j) None else s'.

Definition install_file (j : job) (s : fs) : fs := run_steps j steps s.
Definition install (js : list job) (s : fs) : fs := fold_left (fun s j => install_file j s) js s.

(* death while installing the i-th file (i >= length js: after the last one) *)
Definition crash (js : list job) (i n : nat) (torn : option nat) (s : fs) : fs :=
  match nth_error js i with
  | Some j => crash_file j n torn (install (firstn i js) s)
  | None => install js s
  end.
(* a failing step while installing the i-th file: Install stops there and reports the error *)
Definition fail (js : list job) (i n : nat) (torn : option nat) (s : fs) : fs :=
  match nth_error js i with
  | Some j => fail_file j n torn (install (firstn i js) s)
  | None => install js s
  end.

(* temp names are unused, distinct from every destination and from one another; destinations are distinct *)
Record jobs_ok (js : list job) (s : fs) : Prop := {
  jo_dst : NoDup (map dst js);
  jo_tmp : NoDup (map tmp js);
  jo_sep : forall j j', In j js -> In j' js -> tmp j <> dst j';
  jo_fresh : forall j, In j js -> s (tmp j) = None }.

(* ---------------- one file ---------------- *)
Definition tmp_after (j : job) (n : nat) (torn : option nat) (old : option (content * mode)) : option (content * mode) :=
  match n with
  | 0 | 1 => old
  | 2 => match torn with Some len => Some (firstn len (cnt j), m600) | None => Some ([], m600) end
  | 3 | 4 | 5 => Some (cnt j, m600)
  | 6 => Some (cnt j, m644)
  | _ => None
  end.

(* every step touches only the destination and the temp file: project the file system on that pair *)
Definition cell := option (content * mode).
Definition mini (j : job) (k : stepk) (dt : cell * cell) : cell * cell :=
  let '(d, t) := dt in
  match k with
  | SMkdir | SSync | SClose => (d, t)
  | SCreate => (d, Some ([], m600))
  | SWrite => (d, Some (cnt j, m600))
  | SChmod => (d, match t with Some (c, _) => Some (c, m644) | None => None end)
  | SRename => (t, None)
  end.
Lemma do_step_proj j k s : tmp j <> dst j ->
  do_step j k s (dst j) = fst (mini j k (s (dst j), s (tmp j))) /\
  do_step j k s (tmp j) = snd (mini j k (s (dst j), s (tmp j))) /\
  (forall q, q <> dst j -> q <> tmp j -> do_step j k s q = s q).
Proof.
  intros H. assert (H' : dst j <> tmp j) by auto.
  destruct k; cbn [do_step mini fst snd]; try (split; [reflexivity|split; [reflexivity|auto]]).
  - split; [apply fset_neq; auto | split; [apply fset_eq | intros; apply fset_neq; auto]].
  - split; [apply fset_neq; auto | split; [apply fset_eq | intros; apply fset_neq; auto]].
  - destruct (s (tmp j)) as [[c md]|] eqn:E.
    + split; [apply fset_neq; auto | split; [apply fset_eq | intros; apply fset_neq; auto]].
    + split; [reflexivity | split; [exact E | auto]].
  - split; [rewrite fset_neq by auto; apply fset_eq | split; [apply fset_eq | intros q H1 H2; rewrite !fset_neq by auto; reflexivity]].
Qed.
Definition minis (j : job) (ks : list stepk) (dt : cell * cell) : cell * cell := fold_left (fun dt k => mini j k dt) ks dt.
Lemma run_steps_proj j : forall ks s, tmp j <> dst j ->
  run_steps j ks s (dst j) = fst (minis j ks (s (dst j), s (tmp j))) /\
  run_steps j ks s (tmp j) = snd (minis j ks (s (dst j), s (tmp j))) /\
  (forall q, q <> dst j -> q <> tmp j -> run_steps j ks s q = s q).
Proof.
  induction ks as [|k ks IH]; intros s H; cbn [run_steps minis fold_left]; [split; [|split]; auto|].
  destruct (do_step_proj j k s H) as (A1 & A2 & B). destruct (IH (do_step j k s) H) as (C1 & C2 & D).
  unfold run_steps, minis in C1, C2, D. rewrite C1, C2, A1, A2. rewrite <- surjective_pairing.
  split; [reflexivity|split; [reflexivity|]]. intros q H1 H2. rewrite D by auto. apply B; auto.
Qed.

Lemma crash_file_spec j n torn s q : tmp j <> dst j ->
  crash_file j n torn s q =
    if Nat.eqb q (dst j) then (if Nat.leb 7 n then Some (cnt j, m644) else s (dst j))
    else if Nat.eqb q (tmp j) then tmp_after j n torn (s (tmp j))
    else s q.
Proof.
  intros H. assert (H' : dst j <> tmp j) by auto.
  destruct (run_steps_proj j (firstn n steps) s H) as (A1 & A2 & B).
  unfold crash_file.
  destruct (Nat.eqb_spec q (dst j)) as [->|Hd]; [|destruct (Nat.eqb_spec q (tmp j)) as [->|Ht]].
  - assert (E : run_steps j (firstn n steps) s (dst j) = if Nat.leb 7 n then Some (cnt j, m644) else s (dst j)).
    { rewrite A1. do 8 (destruct n as [|n]; [cbn; try (destruct (s (tmp j)) as [[c md]|]); reflexivity|]). cbn. reflexivity. }
    destruct torn; destruct (nth_error steps n) as [[]|]; rewrite ?fset_neq by auto; exact E.
  - do 8 (destruct n as [|n]; [destruct torn; cbn [nth_error steps]; rewrite ?fset_eq; try reflexivity; rewrite A2; cbn;
                               try (destruct (s (tmp j)) as [[c md]|]); reflexivity|]).
    destruct torn; cbn [nth_error steps]; rewrite A2; cbn; reflexivity.
  - destruct torn; destruct (nth_error steps n) as [[]|]; rewrite ?fset_neq by auto; apply B; auto.
Qed.

Lemma install_file_spec j s q : tmp j <> dst j ->
  install_file j s q = if Nat.eqb q (dst j) then Some (cnt j, m644) else if Nat.eqb q (tmp j) then None else s q.
Proof.
  intros H. pose proof (crash_file_spec j 7 None s q H) as E. unfold crash_file in E. cbn [nth_error steps] in E.
  unfold install_file. replace steps with (firstn 7 steps) at 1 by reflexivity. rewrite E. reflexivity.
Qed.

(* ---------------- several files ---------------- *)
Lemma find_none_intro {A} (f : A -> bool) (l : list A) : (forall x, In x l -> f x = false) -> find f l = None.
Proof. induction l as [|a l IH]; intros H; simpl; auto. rewrite (H a (or_introl eq_refl)). apply IH. intros x Hx. apply H. right; auto. Qed.
Lemma install_spec : forall js s q, jobs_ok js s ->
  install js s q = match find (fun j => Nat.eqb q (dst j)) js with
                   | Some j => Some (cnt j, m644)
                   | None => if existsb (fun j => Nat.eqb q (tmp j)) js then None else s q end.
Proof.
  induction js as [|j js IH]; intros s q Ok; [reflexivity|].
  cbn [install fold_left]. change (fold_left (fun s j => install_file j s) js (install_file j s)) with (install js (install_file j s)).
  assert (Hj : tmp j <> dst j) by (apply (jo_sep _ _ Ok); left; auto).
  assert (Ok' : jobs_ok js (install_file j s)).
  { constructor.
    - pose proof (jo_dst _ _ Ok) as N. inversion N; auto.
    - pose proof (jo_tmp _ _ Ok) as N. inversion N; auto.
    - intros a b Ha Hb. apply (jo_sep _ _ Ok); right; auto.
    - intros a Ha. rewrite install_file_spec by auto.
      assert (tmp a <> dst j) by (apply (jo_sep _ _ Ok); [right|left]; auto).
      assert (tmp a <> tmp j). { pose proof (jo_tmp _ _ Ok) as N. inversion N; subst. intro E. apply H2. rewrite <- E. apply in_map. exact Ha. }
      apply Nat.eqb_neq in H, H0. rewrite H, H0. apply (jo_fresh _ _ Ok). right; auto. }
  rewrite (IH _ q Ok'). cbn [find existsb].
  destruct (Nat.eqb_spec q (dst j)) as [->|Hd].
  - (* q is j's destination: no later job has it as destination or temp *)
    assert (F : find (fun j0 => Nat.eqb (dst j) (dst j0)) js = None).
    { apply find_none_intro. intros a Ha. apply Nat.eqb_neq. pose proof (jo_dst _ _ Ok) as N. inversion N; subst. intro E. apply H1. rewrite E. apply in_map. exact Ha. }
    rewrite F.
    assert (X : existsb (fun j0 => Nat.eqb (dst j) (tmp j0)) js = false).
    { apply not_true_is_false. intro E. apply existsb_exists in E. destruct E as (a & Ha & E). apply Nat.eqb_eq in E.
      apply (jo_sep _ _ Ok a j); [right|left|]; auto. }
    rewrite X. rewrite install_file_spec by auto. rewrite Nat.eqb_refl. reflexivity.
  - destruct (find (fun j0 => Nat.eqb q (dst j0)) js); [reflexivity|].
    rewrite install_file_spec by auto. apply Nat.eqb_neq in Hd. rewrite Hd.
    destruct (Nat.eqb q (tmp j)); simpl; [destruct (existsb _ js); reflexivity|reflexivity].
Qed.

(* ---- correspondence with the real installer: model state vs observed cells ---- *)
Fixpoint listn_eqb (a b : list nat) : bool :=
  match a, b with [], [] => true | x :: a', y :: b' => Nat.eqb x y && listn_eqb a' b' | _, _ => false end.
Definition cell_eqb (a b : option (content * mode)) : bool :=
  match a, b with
  | None, None => true
  | Some (c, m), Some (c', m') => listn_eqb c c' && Nat.eqb m m'
  | _, _ => false end.
Definition fs_mismatches (cs : list (nat * (fs * list (path * option (content * mode))))) : list nat :=
  flat_map (fun c => if forallb (fun qc => cell_eqb (fst (snd c) (fst qc)) (snd qc)) (snd (snd c)) then [] else [fst c]) cs.
