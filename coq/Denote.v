(* C02: the values an emitted program computes are exactly the values of the sequential, one-provider-at-a-time
   evaluation of the same program, in every run (any interleaving, failures and cancellation included). *)
From Coq Require Import List Arith Lia Bool.
Import ListNotations.
Require Import Sem2 Safe.

(* the value a variable denotes: an injector argument, or result i of the provider that produces it applied to the
   denotations of that provider's arguments *)
Inductive denotes (p : prog) : var -> val -> Prop :=
| DArg x : isarg p x = true -> denotes p x (VArg (fst x))
| DApp t j it i vs : item_at p t j = Some it -> i < it_nrets it -> Forall2 (denotes p) (it_args it) vs ->
                     denotes p (it_node it, i) (VApp (it_node it) i vs).

(* sequential reference evaluator: evaluate a variable by evaluating the arguments of its producer first *)
Definition find_item (p : prog) (n : nat) : option item := find (fun it => Nat.eqb (it_node it) n) (concat (p_threads p)).
Fixpoint seq_eval (fuel : nat) (p : prog) (x : var) : option val :=
  match fuel with
  | 0 => None
  | S fuel =>
      if isarg p x then Some (VArg (fst x))
      else match find_item p (fst x) with
           | Some it =>
               if Nat.ltb (snd x) (it_nrets it)
               then option_map (VApp (fst x) (snd x))
                      ((fix go (l : list var) : option (list val) :=
                          match l with
                          | [] => Some []
                          | y :: r => match seq_eval fuel p y, go r with Some v, Some vs => Some (v :: vs) | _, _ => None end
                          end) (it_args it))
               else None
           | None => None
           end
  end.

(* ---- what a step can add ---- *)
Lemma step_shape p s l s' : step p s l = Some s' ->
  (exists t pc k it vs, l = LEnter t /\ cur p s t = Some (pc, PWait k, it) /\ k = length (it_waits it) /\ rdall p (s_store s) (it_args it) = Some vs /\
       s_thr s' = upd (s_thr s) t (TRun pc (PInside vs)) /\ s_trace s' = Enter (it_node it) vs :: s_trace s /\ s_store s' = s_store s) \/
  (exists t pc it vs, l = LExitOk t /\ cur p s t = Some (pc, PInside vs, it) /\
       s_thr s' = upd (s_thr s) t (TRun pc (PClose 0)) /\ s_trace s' = ExitOk (it_node it) vs :: s_trace s /\
       s_store s' = rets (it_node it) (it_nrets it) vs ++ s_store s) \/
  ((forall n vs, In (ExitOk n vs) (s_trace s') -> In (ExitOk n vs) (s_trace s)) /\
   (forall t pc vs, nth_error (s_thr s') t = Some (TRun pc (PInside vs)) -> nth_error (s_thr s) t = Some (TRun pc (PInside vs))) /\
   s_store s' = s_store s).
Proof.
  intros Hs.
  assert (KEEP : forall t x, (forall pc vs, x <> TRun pc (PInside vs)) ->
            forall t0 pc vs, nth_error (upd (s_thr s) t x) t0 = Some (TRun pc (PInside vs)) -> nth_error (s_thr s) t0 = Some (TRun pc (PInside vs))).
  { intros t x Hx t0 pc vs E. destruct (Nat.eq_dec t t0) as [->|ne].
    - destruct (lt_dec t0 (length (s_thr s))) as [Hl|Hl].
      + rewrite nth_error_upd_eq in E by auto. inversion E. exfalso. eapply Hx; eauto.
      + assert (nth_error (upd (s_thr s) t0 x) t0 = None) by (apply nth_error_None; rewrite upd_length; lia). congruence.
    - rewrite nth_error_upd_neq in E by auto. exact E. }
  destruct l as [t|t|t|t|t|t|t|t|]; unfold step in Hs.
  - destruct (cur p s t) as [[[pc ph] it]|] eqn:C; try discriminate. destruct ph as [k| |]; try discriminate.
    destruct (nth_error (it_waits it) k); try discriminate. destruct (mem v (s_closed s)); try discriminate. inversion Hs; subst; clear Hs.
    right. right. cbn [setthr s_trace s_thr s_store]. split; [auto|]. split; [apply KEEP; intros; discriminate | reflexivity].
  - destruct (cur p s t) as [[[pc ph] it]|] eqn:C; try discriminate. destruct ph as [k| |]; try discriminate.
    destruct (nth_error (it_waits it) k); try discriminate. destruct (ctxaware p t); try discriminate.
    destruct (s_cext s); [|destruct (s_cint s); [|discriminate]]; inversion Hs; subst; clear Hs; right; right; cbn [fail s_trace s_thr s_store];
      (split; [auto|]; split; [apply KEEP; intros; discriminate | reflexivity]).
  - destruct (cur p s t) as [[[pc ph] it]|] eqn:C; try discriminate. destruct ph as [k| |]; try discriminate.
    destruct (Nat.eqb k (length (it_waits it))) eqn:Ek; try discriminate. destruct (rdall p (s_store s) (it_args it)) as [vs|] eqn:R; try discriminate.
    inversion Hs; subst; clear Hs. left. exists t, pc, k, it, vs. apply Nat.eqb_eq in Ek. cbn [s_thr s_trace s_store]. repeat split; auto.
  - destruct (cur p s t) as [[[pc ph] it]|] eqn:C; try discriminate. destruct ph as [k|vs|]; try discriminate.
    inversion Hs; subst; clear Hs. right. left. exists t, pc, it, vs. cbn [s_thr s_trace s_store]. repeat split; auto.
  - destruct (cur p s t) as [[[pc ph] it]|] eqn:C; try discriminate. destruct ph as [k|vs|]; try discriminate.
    destruct (it_fallible it); try discriminate. inversion Hs; subst; clear Hs. right. right. cbn [fail s_trace s_thr s_store].
    split; [intros n vs0 [E|E]; [discriminate|exact E]|]. split; [apply KEEP; intros; discriminate | reflexivity].
  - destruct (cur p s t) as [[[pc ph] it]|] eqn:C; try discriminate. destruct ph as [k| |k]; try discriminate.
    destruct (nth_error (it_closes it) k); try discriminate. destruct (mem v (s_closed s)); try discriminate. inversion Hs; subst; clear Hs.
    right. right. cbn [s_trace s_thr s_store]. split; [auto|]. split; [apply KEEP; intros; discriminate | reflexivity].
  - destruct (cur p s t) as [[[pc ph] it]|] eqn:C; try discriminate. destruct ph as [k| |k]; try discriminate.
    destruct (Nat.eqb k (length (it_closes it))); try discriminate. inversion Hs; subst; clear Hs.
    right. right. cbn [setthr s_trace s_thr s_store]. split; [auto|]. split; [apply KEEP; intros; discriminate | reflexivity].
  - destruct (nth_error (s_thr s) t) as [[pc [[|k]| |]|]|] eqn:Ct; try discriminate.
    destruct (nth_error (p_threads p) t); try discriminate. destruct (Nat.eqb pc (length l)); try discriminate.
    destruct (Nat.eqb t 0).
    + destruct (forallb isdone (tl (s_thr s))); try discriminate. inversion Hs; subst; clear Hs.
      right. right. cbn [setthr s_trace s_thr s_store]. split; [auto|]. split; [apply KEEP; intros; discriminate | reflexivity].
    + inversion Hs; subst; clear Hs. right. right. cbn [setthr s_trace s_thr s_store]. split; [auto|]. split; [apply KEEP; intros; discriminate | reflexivity].
  - inversion Hs; subst; clear Hs. right. right. cbn [s_trace s_thr s_store]. auto.
Qed.

(* ---- invariant: every argument vector that was read denotes ---- *)
Record InvV (p : prog) (s : state) : Prop := {
  iv_exit : forall n vs t j it, In (ExitOk n vs) (s_trace s) -> item_at p t j = Some it -> it_node it = n -> Forall2 (denotes p) (it_args it) vs;
  iv_inside : forall t pc vs it, nth_error (s_thr s) t = Some (TRun pc (PInside vs)) -> item_at p t pc = Some it -> Forall2 (denotes p) (it_args it) vs }.

Lemma good_read_denotes p s : wf p -> Inv p s -> InvV p s ->
  forall t pc it, item_at p t pc = Some it -> forall x v, In x (it_args it) -> good_read p s x v -> denotes p x v.
Proof.
  intros W I V t pc it Hi x v Hx [(A & ->)|(ws & Hin & ->)]; [constructor; exact A|].
  destruct (inv_exit_loc _ _ I _ _ Hin) as (t2 & j2 & it2 & Hi2 & Hn2 & _).
  assert (Hr : snd x < it_nrets it2).
  { destruct (wf_args p W t pc it x Hi Hx) as [A|[(j' & it' & _ & Hi' & Hn' & Hr')|Hw]].
    - (* an argument node is never produced by an item *) exfalso. unfold isarg in A. destruct (in_dec Nat.eq_dec (fst x) (p_argnodes p)); [|discriminate].
      apply (wf_noarg p W t2 j2 it2 Hi2). rewrite Hn2. assumption.
    - assert (E : t = t2 /\ j' = j2) by (eapply loc_unique; eauto; congruence). destruct E; subst. congruence.
    - destruct (wf_waits p W t pc it x Hi Hw) as (_ & t' & j' & it' & Hi' & Hn' & Hr').
      assert (E : t' = t2 /\ j' = j2) by (eapply loc_unique; eauto; congruence). destruct E; subst. congruence. }
  destruct x as [n i]. simpl in *. subst n. eapply DApp; eauto. eapply (iv_exit _ _ V); eauto.
Qed.

Lemma forall2_good_denotes p s : wf p -> Inv p s -> InvV p s -> forall t pc it, item_at p t pc = Some it ->
  forall vs, Forall2 (good_read p s) (it_args it) vs -> Forall2 (denotes p) (it_args it) vs.
Proof.
  intros W I V t pc it Hi vs F.
  assert (G : forall x v, In x (it_args it) -> good_read p s x v -> denotes p x v) by (intros; eapply good_read_denotes; eauto).
  clear Hi. induction F as [|x v l l' Hxv F IH]; constructor; [apply G; [left; auto|auto] | apply IH; intros; apply G; [right; auto|auto]].
Qed.

Lemma stepV_inv p s l s' : wf p -> Inv p s -> InvV p s -> step p s l = Some s' -> InvV p s'.
Proof.
  intros W I V Hs. destruct (step_shape p s l s' Hs) as [(t & pc & k & it & vs & -> & C & Ek & R & Et & Etr & Est)|[(t & pc & it & vs & -> & C & Et & Etr & Est)|(A & B & Est)]].
  - apply cur_spec in C. destruct C as (Ct & Ci). subst k.
    destruct (ready_reads p s t pc it W I Ct Ci) as (vs' & R' & F). rewrite R in R'. inversion R'; subst vs'.
    pose proof (forall2_good_denotes p s W I V t pc it Ci vs F) as D.
    assert (Hlt : t < length (s_thr s)) by (eapply nth_error_Some_lt; eauto).
    constructor.
    + intros n ws t0 j0 it0 Hin. rewrite Etr in Hin. destruct Hin as [E|Hin]; [discriminate|]. apply (iv_exit _ _ V); auto.
    + intros t0 pc0 ws it0 E Hi0. rewrite Et in E. destruct (Nat.eq_dec t t0) as [<-|ne].
      * rewrite nth_error_upd_eq in E by auto. inversion E; subst. rewrite Ci in Hi0. inversion Hi0; subst. exact D.
      * rewrite nth_error_upd_neq in E by auto. eapply (iv_inside _ _ V); eauto.
  - apply cur_spec in C. destruct C as (Ct & Ci).
    assert (Hlt : t < length (s_thr s)) by (eapply nth_error_Some_lt; eauto).
    constructor.
    + intros n ws t0 j0 it0 Hin Hi0 Hn. rewrite Etr in Hin. destruct Hin as [E|Hin]; [|eapply (iv_exit _ _ V); eauto].
      inversion E; subst. assert (Eloc : t0 = t /\ j0 = pc) by (eapply loc_unique; eauto). destruct Eloc; subst.
      rewrite Ci in Hi0. inversion Hi0; subst. eapply (iv_inside _ _ V); eauto.
    + intros t0 pc0 ws it0 E Hi0. rewrite Et in E. destruct (Nat.eq_dec t t0) as [<-|ne].
      * rewrite nth_error_upd_eq in E by auto. discriminate.
      * rewrite nth_error_upd_neq in E by auto. eapply (iv_inside _ _ V); eauto.
  - constructor.
    + intros n ws t0 j0 it0 Hin. apply A in Hin. apply (iv_exit _ _ V); auto.
    + intros t0 pc0 ws it0 E. apply B in E. apply (iv_inside _ _ V); auto.
Qed.

Lemma invV_init p : InvV p (init p).
Proof.
  constructor; [intros n vs t j it []|]. intros t pc vs it E. unfold init in E. simpl in E.
  rewrite nth_error_map in E. destruct (nth_error (p_threads p) t); discriminate.
Qed.

Lemma runV p : forall ls s s', wf p -> Inv p s -> InvV p s -> run p s ls = Some s' -> Inv p s' /\ InvV p s'.
Proof.
  induction ls as [|l r IH]; intros s s' W I V R; simpl in R; [inversion R; subst; auto|].
  destruct (step p s l) as [s1|] eqn:E; [|discriminate]. apply (IH s1 s' W); auto; [eapply step_inv; eauto | eapply stepV_inv; eauto].
Qed.

(* every value ever stored for a provided variable denotes *)
Theorem stored_values_denote p ls s : wf p -> run p (init p) ls = Some s ->
  forall n i vs t j it, In (ExitOk n vs) (s_trace s) -> item_at p t j = Some it -> it_node it = n -> i < it_nrets it ->
    lookup (n, i) (s_store s) = Some (VApp n i vs) /\ denotes p (n, i) (VApp n i vs).
Proof.
  intros W R n i vs t j it Hin Hi Hn Hr. destruct (runV p ls _ _ W (inv_init p) (invV_init p) R) as (I & V).
  split; [eapply (inv_store _ _ I); eauto|]. subst n. eapply DApp; eauto. eapply (iv_exit _ _ V); eauto.
Qed.

(* ---- denotation is a function (the value does not depend on the schedule) ---- *)
Fixpoint val_size (v : val) : nat :=
  match v with VArg _ => 1 | VApp _ _ args => S ((fix go (l : list val) : nat := match l with [] => 0 | a :: r => val_size a + go r end) args) end.
Definition sizes (l : list val) : nat := (fix go (l : list val) : nat := match l with [] => 0 | a :: r => val_size a + go r end) l.
Lemma val_size_app n i args : val_size (VApp n i args) = S (sizes args). Proof. reflexivity. Qed.
Lemma sizes_cons a r : sizes (a :: r) = val_size a + sizes r. Proof. reflexivity. Qed.

Lemma denotes_fun p : wf p -> forall k v, val_size v <= k -> forall x, denotes p x v -> forall v', denotes p x v' -> v = v'.
Proof.
  intros W. induction k as [|k IH]; intros v Hk x D v' D'.
  - destruct v; simpl in Hk; lia.
  - destruct D as [x A|t j it i vs Hi Hr F].
    + inversion D' as [x' A' E1 E2|t' j' it' i' vs' Hi' Hr' F' E1 E2]; subst; [reflexivity|].
      exfalso. unfold isarg in A. simpl in A. destruct (in_dec Nat.eq_dec (it_node it') (p_argnodes p)); [|discriminate]. eapply (wf_noarg p W); eauto.
    + inversion D' as [x' A' E1 E2|t' j' it' i' vs' Hi' Hr' F' E1 E2]; subst.
      * exfalso. unfold isarg in A'. simpl in A'. destruct (in_dec Nat.eq_dec (it_node it) (p_argnodes p)); [|discriminate]. eapply (wf_noarg p W); eauto.
      * assert (E : t = t' /\ j = j') by (eapply loc_unique; eauto). destruct E; subst. rewrite Hi in Hi'. inversion Hi'; subst it'.
        f_equal. rewrite val_size_app in Hk. assert (Hs : sizes vs <= k) by lia. clear - IH F F' Hs.
        revert vs' F'. induction F as [|x v l l' Hxv F IHF]; intros vs' F'; inversion F'; subst; [reflexivity|].
        rewrite sizes_cons in Hs. f_equal; [eapply (IH v); eauto; lia | apply IHF; auto; lia].
Qed.

(* the sequential evaluator computes denotations *)
Lemma find_item_at p n it : find_item p n = Some it -> it_node it = n /\ exists t j, item_at p t j = Some it.
Proof.
  unfold find_item. intros H. apply find_some in H. destruct H as (Hin & E). apply Nat.eqb_eq in E. split; auto.
  apply in_concat in Hin. destruct Hin as (its & H1 & H2). apply In_nth_error in H1. destruct H1 as (t & Ht). apply In_nth_error in H2. destruct H2 as (j & Hj).
  exists t, j. unfold item_at, items_of. erewrite nth_error_nth by eauto. exact Hj.
Qed.
Lemma seq_eval_denotes p : forall fuel x v, seq_eval fuel p x = Some v -> denotes p x v.
Proof.
  induction fuel as [|fuel IH]; intros x v H; simpl in H; [discriminate|].
  destruct (isarg p x) eqn:A; [inversion H; subst; constructor; exact A|].
  destruct (find_item p (fst x)) as [it|] eqn:F; [|discriminate]. destruct (find_item_at _ _ _ F) as (Hn & t & j & Hi).
  destruct (Nat.ltb (snd x) (it_nrets it)) eqn:L; [|discriminate]. apply Nat.ltb_lt in L.
  match type of H with option_map _ ?G = _ => destruct G as [vs|] eqn:Ego; [|discriminate] end. simpl in H. inversion H; subst v.
  destruct x as [n i]. simpl in *. subst n. eapply DApp; eauto.
  clear - IH Ego. revert vs Ego. induction (it_args it) as [|y r IHr]; intros vs E; [inversion E; constructor|].
  destruct (seq_eval fuel p y) as [v|] eqn:Ey; [|discriminate].
  match type of E with match ?G with _ => _ end = _ => destruct G as [vs0|] eqn:Er; [|discriminate] end.
  inversion E; subst. constructor; [apply IH; exact Ey | apply IHr; reflexivity].
Qed.

(* C02: whatever the schedule, the value a run stores for a provided variable is the value the sequential evaluator
   computes for it (whenever that evaluator succeeds, i.e. fuel suffices) *)
Theorem run_value_is_sequential p ls s : wf p -> run p (init p) ls = Some s ->
  forall n i vs t j it fuel v, In (ExitOk n vs) (s_trace s) -> item_at p t j = Some it -> it_node it = n -> i < it_nrets it ->
    seq_eval fuel p (n, i) = Some v -> lookup (n, i) (s_store s) = Some v.
Proof.
  intros W R n i vs t j it fuel v Hin Hi Hn Hr Hs.
  destruct (stored_values_denote p ls s W R n i vs t j it Hin Hi Hn Hr) as (L & D).
  rewrite L. f_equal. eapply (denotes_fun p W _ _ (le_n _)); [exact D | apply (seq_eval_denotes p fuel); exact Hs].
Qed.
