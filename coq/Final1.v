From Coq Require Import List Arith Lia Bool NArith.
Import ListNotations.
Require Import Bfs.

(* (a) the initial BFS state satisfies the invariant *)
Section Init.
Variable requires : nat -> list N.
Variable pm : N -> option (nat * nat).
Variable nprovides : nat -> nat.
Variable pi0 : nat.
Definition b0 : bst := {| nodes := [NProv pi0]; red := fun _ => []; out := fun _ => []; pn := []; an := []; queue := [0] |}.

Lemma b0_inv : inv requires pm nprovides b0 [] None.
Proof.
  constructor; unfold b0; cbn [nodes red out pn an queue].
  - intros n. simpl. split; [intros H; left; left; lia | intros [[H|[]]|[[]|(k & H)]]; [lia|discriminate]].
  - constructor; [intros []|constructor].
  - intros n [<-|[]]. split; [intros []|]. split; [intros; discriminate|reflexivity].
  - intros n [].
  - intros n k H. discriminate.
  - intros c i m sx H. destruct i; discriminate.
  - intros m c i [].
  - intros m. constructor.
  - intros n t H. reflexivity.
  - intros n H. auto.
  - intros pi n [].
  - intros t n [].
  - intros pi n [].
  - intros t n [].
  - intros c i m sx pi H. destruct i; discriminate.
  - intros n t H. destruct n as [|n]; simpl in H; [discriminate | destruct n; discriminate].
  - constructor.
  - intros t n [].
  - intros c i m sx pc H. destruct i; discriminate.
  - intros n p Hn H. destruct n; [contradiction|]. destruct n; discriminate.
  - constructor.
  - simpl. lia.
  - reflexivity.
  - intros p n [].
  - intros t n [].
Qed.
End Init.
