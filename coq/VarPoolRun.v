(* Request histories of the name allocator with automatic fuel, pre-registration, and the Go-spec reserved words. *)
From Coq Require Import String Ascii List Arith Lia Bool.
Import ListNotations.
Require Import Dec VarPool.
Open Scope string_scope.

(* every request gets fuel |pool| + 1, which always suffices (get_name_total) *)
Fixpoint run_auto (st : pool) (reqs : list string) : option (list string * pool) :=
  match reqs with
  | [] => Some ([], st)
  | b :: r => match get_name (S (length st)) st b with
              | Some (n, st1) => match run_auto st1 r with Some (ns, st2) => Some (n :: ns, st2) | None => None end
              | None => None end
  end.

Theorem run_auto_total : forall reqs st, exists r, run_auto st reqs = Some r.
Proof.
  induction reqs as [|b r IH]; intros st; cbn [run_auto]; [eauto|].
  destruct (get_name_total st b) as ((n & st1) & E). rewrite E. destruct (IH st1) as ((ns & st2) & E2). rewrite E2. eauto.
Qed.

Lemma get_name_marks_base fuel : forall st base n st', get_name fuel st base = Some (n, st') -> used st' base.
Proof.
  induction fuel as [|fuel IH]; intros st base n st' H; simpl in H; [discriminate|].
  assert (U1 : used (set st base (S (count st base))) base) by (unfold used; rewrite count_set_eq; lia).
  destruct (Nat.eqb (count st base) 0).
  - inversion H; subst. exact U1.
  - destruct (Nat.eqb (count (set st base (S (count st base))) (base ++ dec (count st base - 1))) 0) eqn:E1.
    + inversion H; subst. unfold used in *. destruct (string_dec base (base ++ dec (count st base - 1))) as [E|N].
      * rewrite <- E. rewrite count_set_eq. lia.
      * rewrite count_set_neq by auto. exact U1.
    + eapply IH; eauto.
Qed.

Theorem run_auto_fresh : forall reqs st outs st', run_auto st reqs = Some (outs, st') ->
  NoDup outs /\ (forall x, In x outs -> ~ used st x) /\ (forall x, In x outs -> used st' x) /\ (forall x, used st x -> used st' x) /\
  (forall b, In b reqs -> used st' b).
Proof.
  induction reqs as [|b r IH]; intros st outs st' H; cbn [run_auto] in H.
  - inversion H; subst. repeat split; auto; try constructor; intros x [].
  - destruct (get_name (S (length st)) st b) as [[n st1]|] eqn:G; try discriminate.
    destruct (run_auto st1 r) as [[ns st2]|] eqn:R; try discriminate. inversion H; subst.
    destruct (get_name_fresh _ _ _ _ _ G) as (A & B & C). destruct (IH _ _ _ R) as (D & E & F & K & M).
    split; [|split; [|split; [|split]]].
    + constructor; auto. intro Hin. apply (E _ Hin). exact B.
    + intros x [<-|Hx]; auto. intro Hu. apply (E _ Hx). apply C; auto.
    + intros x [<-|Hx]; auto.
    + intros x Hx. auto.
    + intros x [<-|Hx]; auto. apply K. eapply get_name_marks_base; eauto.
Qed.

(* NewVarPool: reserved words seeded with count 1 *)
Definition reserved_pool (rs : list string) : pool := map (fun s => (s, 1)) rs.
Lemma reserved_used rs x : In x rs -> used (reserved_pool rs) x.
Proof.
  unfold used. induction rs as [|a r IH]; simpl; intros H; [destruct H|].
  destruct (String.eqb x a) eqn:E; [lia|]. destruct H as [->|H]; [rewrite String.eqb_refl in E; discriminate|auto].
Qed.

(* The Go specification's keywords and predeclared identifiers (go1.21+: clear, max, min; go1.18: any, comparable) *)
Definition spec_keywords : list string :=
  ["break"; "case"; "chan"; "const"; "continue"; "default"; "defer"; "else"; "fallthrough"; "for"; "func"; "go"; "goto"; "if"; "import";
   "interface"; "map"; "package"; "range"; "return"; "select"; "struct"; "switch"; "type"; "var"].
Definition spec_predeclared : list string :=
  ["any"; "bool"; "byte"; "comparable"; "complex64"; "complex128"; "error"; "float32"; "float64"; "int"; "int8"; "int16"; "int32"; "int64";
   "rune"; "string"; "uint"; "uint8"; "uint16"; "uint32"; "uint64"; "uintptr"; "true"; "false"; "iota"; "nil";
   "append"; "cap"; "clear"; "close"; "complex"; "copy"; "delete"; "imag"; "len"; "make"; "max"; "min"; "new"; "panic"; "print"; "println";
   "real"; "recover"].

Definition mems (x : string) (l : list string) : bool := existsb (String.eqb x) l.
Lemma mems_true x l : mems x l = true <-> In x l.
Proof. unfold mems. rewrite existsb_exists. split; [intros (y & H & E); apply String.eqb_eq in E; subst; auto | intros H; exists x; split; auto; apply String.eqb_refl]. Qed.
Definition inclb (a b : list string) : bool := forallb (fun x => mems x b) a.
Lemma inclb_sound a b : inclb a b = true -> incl a b.
Proof. unfold inclb. rewrite forallb_forall. intros H x Hx. apply mems_true. auto. Qed.

(* base-name derivation for named types (ASCII): lower-case the leading run of upper-case letters *)
Definition is_upper (c : ascii) : bool := let n := nat_of_ascii c in Nat.leb 65 n && Nat.leb n 90.
Definition lower (c : ascii) : ascii := if is_upper c then ascii_of_nat (nat_of_ascii c + 32) else c.
Fixpoint to_lower_camel (s : string) : string :=
  match s with
  | EmptyString => EmptyString
  | String c r => if is_upper c then String (lower c) (to_lower_camel r) else s
  end.

(* requests as the generator issues them *)
Inductive req := RName (base : string) | RGet (tyname : string) | RChan (tyname : string).
Definition base_of (r : req) : string :=
  match r with RName b => b | RGet t => to_lower_camel t | RChan t => to_lower_camel t ++ "Ch" end.
Definition serve (rs pre : list string) (reqs : list req) : option (list string) :=
  match run_auto (reserved_pool rs) pre with
  | Some (_, st0) => option_map fst (run_auto st0 (map base_of reqs))
  | None => None end.
Fixpoint lists_eqb (a b : list string) : bool :=
  match a, b with [], [] => true | x :: a', y :: b' => String.eqb x y && lists_eqb a' b' | _, _ => false end.
Definition vp_mismatches (rs : list string) (cs : list (nat * (list string * list req * list string))) : list nat :=
  flat_map (fun c => let '(pre, reqs, outs) := snd c in
                     match serve rs pre reqs with Some o => if lists_eqb o outs then [] else [fst c] | None => [fst c] end) cs.
