From Coq Require Import List NArith. Import ListNotations.
Require Import Gen GenU.
Definition verdict (d : Gen.decl) : nat := match unew_graph d with OK _ => 0 | Err e => e end.
(* 1 A 2 B 3 C : cycle A<-C<-B<-A *)
Eval vm_compute in verdict {| d_ret := 1%N; d_provs := [mkfn [3%N] [[1%N]] false false; mkfn [1%N] [[2%N]] false false; mkfn [2%N] [[3%N]] false false] |}.
(* self loop *)
Eval vm_compute in verdict {| d_ret := 1%N; d_provs := [mkfn [1%N] [[1%N]] false false] |}.
(* cycle through bind: A needs B; B needs I(4); I bound to A's result group *)
Eval vm_compute in verdict {| d_ret := 2%N; d_provs := [mkfn [2%N] [[1%N; 4%N]] false false; mkfn [4%N] [[2%N]] false false] |}.
(* unreachable cycle: accepted *)
Eval vm_compute in verdict {| d_ret := 1%N; d_provs := [mkfn [] [[1%N]] false false; mkfn [3%N] [[2%N]] false false; mkfn [2%N] [[3%N]] false false] |}.
(* duplicate via two binds *)
Eval vm_compute in verdict {| d_ret := 3%N; d_provs := [mkfn [] [[1%N; 4%N]] false false; mkfn [] [[2%N; 4%N]] false false; mkfn [4%N] [[3%N]] false false] |}.
(* orphan struct *)
Eval vm_compute in verdict {| d_ret := 3%N; d_provs := [mkstruct 5%N [(1%N, 2%N)]; mkfn [2%N] [[3%N]] false false] |}.
(* field conflicts with provider *)
Eval vm_compute in verdict {| d_ret := 3%N; d_provs := [mkfn [] [[5%N]] false false; mkfn [] [[2%N]] false false; mkstruct 5%N [(1%N, 2%N)]; mkfn [2%N] [[3%N]] false false] |}.
(* cycle through struct field: S(5) needs C(3); C needs B(2) which is a field of S *)
Eval vm_compute in verdict {| d_ret := 3%N; d_provs := [mkfn [3%N] [[5%N]] false false; mkstruct 5%N [(1%N, 2%N)]; mkfn [2%N] [[3%N]] false false] |}.
