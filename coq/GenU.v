From Coq Require Import List Arith Bool NArith.
Import ListNotations.
Require Import Gen Bfs Dfs Kahn Match Pool Sem2 Sched2 Threads Corr.

(* The unified, proof-carrying pipeline: exactly the functions the theorems are about *)
Definition pm_of (l : Gen.pmap) : N -> option (nat * nat) := fun t => Gen.assoc t l.

Record ugraph := { ub : Bfs.bst; uprovs : list Gen.prov; uret : nat }.

Definition unew_graph (d : Gen.decl) : Gen.result ugraph :=
  match Gen.pass1 [] 0 (Gen.d_provs d) with
  | Err e => Err e
  | OK pm =>
      match Gen.pass2 pm (Gen.d_provs d) (filter Gen.isstruct (Gen.d_provs d)) with
      | Err e => Err e
      | OK (pm, provs) =>
          let req := fun pi => match nth_error provs pi with Some p => Gen.requires p | None => [] end in
          match Gen.assoc (Gen.d_ret d) pm with
          | None => Err 8   (* requested type is an argument: handled separately *)
          | Some (pi, gi) =>
              let b0 := {| Bfs.nodes := [Bfs.NProv pi]; red := fun _ => []; out := fun _ => []; pn := []; an := []; queue := [0] |} in
              let fuel := 2 + 2 * (length provs + fold_right (fun p a => length (Gen.requires p) + a) 0 provs) in
              match Bfs.loop req (pm_of pm) fuel b0 [] with
              | None => Err 4
              | Some (b, _) =>
                  let n := length (Bfs.nodes b) in
                  let succs := fun m => map fst (Bfs.out b m) in
                  match Dfs.dfs_all succs (S n) (seq 0 n) (fun _ => White) [] with
                  | Some _ => OK {| ub := b; uprovs := provs; uret := gi |}
                  | None => Err 3 end
              end
          end
      end
  end.

Section U.
Variable g : ugraph.
Definition b := ub g.
Definition nn := length (Bfs.nodes b).
Definition uouts (n : nat) := Bfs.out b n.
Definition unreq (n : nat) := length (Bfs.red b n).
Definition usrc (c i : nat) := fst (nth i (Bfs.red b c) (0, 0)).
Definition usidx (c i : nat) := snd (nth i (Bfs.red b c) (0, 0)).
Definition uprov (n : nat) : option Gen.prov := match nth_error (Bfs.nodes b) n with Some (Bfs.NProv pi) => nth_error (uprovs g) pi | _ => None end.
Definition uisarg (n : nat) : bool := match nth_error (Bfs.nodes b) n with Some (Bfs.NArg _) => true | _ => false end.
Definition uisasync (n : nat) : bool := match uprov n with Some p => Gen.async p | None => false end.
Definition unprov (n : nat) : nat := match uprov n with Some p => length (Gen.provides p) | None => 0 end.
Definition ufall (n : nat) : bool := match uprov n with Some p => Gen.fallible p | None => false end.
Definition unp : nat := Match.antichain nn (fun n => map fst (uouts n)).
Definition upool (i : nat) : list nat := Sched2.pool nn uouts unreq usrc uisarg uisasync unp i.
Definition udeps (n : nat) : list nat := Sched2.deps unreq usrc n.
Definition uargs : list nat := Sched2.args nn uisarg.
Definition uthreads : option (list nat) :=
  match Threads.build unp upool udeps uisasync uargs with
  | Some st => Some (0 :: Threads.gos st)      (* main = pool 0 (proved), then the goroutines in emitted order *)
  | None => None end.
Definition uitem (m : nat) : Sem2.item := Sched2.mkitem nn uouts unreq usrc usidx unprov uisarg uisasync unp ufall m.
End U.

Definition uobserve (d : Gen.decl) : option (list oitem * list (list oitem)) :=
  match unew_graph d with
  | Err _ => None
  | OK g =>
      match uthreads g with
      | None => None
      | Some tix =>
          let tosrc (x : nat * nat) := match nth_error (Bfs.nodes (ub g)) (fst x) with
                                       | Some (Bfs.NArg t) => SArg t | Some (Bfs.NProv pi) => SVar pi (snd x) | None => SArg 0 end in
          let conv (m : nat) := let it := uitem g m in
                                mko (match nth_error (Bfs.nodes (ub g)) m with Some (Bfs.NProv pi) => pi | _ => 9999 end)
                                    (map tosrc (Sem2.it_args it)) (map tosrc (Sem2.it_waits it)) (map snd (Sem2.it_closes it)) in
          match map (fun i => map conv (upool g i)) tix with
          | main :: gos => Some (main, gos)
          | [] => None end
      end
  end.
Definition umismatches (cs : list (nat * (Gen.decl * (list oitem * list (list oitem))))) : list nat :=
  flat_map (fun c => match uobserve (fst (snd c)) with Some o => if same o (snd (snd c)) then [] else [fst c] | None => [fst c] end) cs.
