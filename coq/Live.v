From Coq Require Import List Arith Lia Bool Wf_nat.
Import ListNotations.
Require Import Sem2 Safe.

(* extra well-formedness for progress *)
Record wfl (p : prog) (rank : nat -> nat) : Prop := {
  wfl_wf :> wf p;
  wfl_mono : forall t j j' it it', j < j' -> item_at p t j = Some it -> item_at p t j' = Some it' -> rank (it_node it) < rank (it_node it');
  wfl_wait : forall t j it x, item_at p t j = Some it -> In x (it_waits it) ->
      exists t' j' it', item_at p t' j' = Some it' /\ it_node it' = fst x /\ In x (it_closes it') /\ rank (it_node it') < rank (it_node it);
  wfl_closes_nodup : forall t j it, item_at p t j = Some it -> NoDup (it_closes it) }.

(* fault-free states: nobody failed *)
Definition ffree (s : state) : Prop := forall t e, nth_error (s_thr s) t = Some (TDone (Some e)) -> False.

(* closes performed so far *)
Record InvL (p : prog) (s : state) : Prop := {
  il_done : forall t j it x, item_at p t j = Some it -> In x (it_closes it) ->
              (match nth_error (s_thr s) t with
               | Some (TRun pc ph) => j < pc
               | Some (TDone None) => True
               | _ => False end) -> In x (s_closed s);
  il_closing : forall t pc k it i x, nth_error (s_thr s) t = Some (TRun pc (PClose k)) -> item_at p t pc = Some it ->
              i < k -> nth_error (it_closes it) i = Some x -> In x (s_closed s);
  il_closed_src : forall x, In x (s_closed s) -> exists t j it, item_at p t j = Some it /\ In x (it_closes it) /\
              (match nth_error (s_thr s) t with
               | Some (TRun pc ph) => j < pc \/ (j = pc /\ exists k i, ph = PClose k /\ i < k /\ nth_error (it_closes it) i = Some x)
               | Some (TDone _) => True
               | None => False end);
  il_bounds : forall t pc ph, nth_error (s_thr s) t = Some (TRun pc ph) -> pc <= length (items_of p t) /\
              (pc = length (items_of p t) -> ph = PWait 0) /\
              (forall it, item_at p t pc = Some it -> match ph with PWait k => k <= length (it_waits it) | PClose k => k <= length (it_closes it) | _ => True end) }.

Definition enabled (p : prog) (s : state) (l : label) : Prop := exists s', step p s l = Some s'.

(* the current rank of a running thread (None when it has finished its items) *)
Definition cur_rank (p : prog) (rank : nat -> nat) (s : state) (t : nat) : option nat :=
  match cur p s t with Some (_, _, it) => Some (rank (it_node it)) | None => None end.

Lemma progress_item p rank s : wfl p rank -> Inv p s -> InvL p s -> ffree s ->
  forall r t pc ph it, nth_error (s_thr s) t = Some (TRun pc ph) -> item_at p t pc = Some it ->
    rank (it_node it) <= r ->
    exists l, l <> LCancel /\ enabled p s l.
Proof.
  intros W I L F. induction r as [r IHr] using lt_wf_ind. intros t pc ph it Ct Ci Hr.
  destruct (il_bounds _ _ L t pc ph Ct) as (Hpc & Hend & Hph).
  assert (Hthr : exists its, nth_error (p_threads p) t = Some its /\ items_of p t = its).
  { assert (t < length (p_threads p)) by (rewrite <- (inv_len _ _ I); eapply nth_error_Some_lt; eauto).
    destruct (nth_error (p_threads p) t) as [its|] eqn:E; [|apply nth_error_None in E; lia].
    exists its. split; auto. unfold items_of. eapply nth_error_nth; eauto. }
  destruct Hthr as (its & Ets & Eits).
  assert (Cur : cur p s t = Some (pc, ph, it)).
  { unfold cur. rewrite Ct, Ets. unfold item_at in Ci. rewrite Eits in Ci. rewrite Ci. reflexivity. }
  specialize (Hph it Ci).
  destruct ph as [k|vs|k].
  - (* waiting *)
    destruct (Nat.eq_dec k (length (it_waits it))) as [->|Hk].
    + (* ready to enter *)
      destruct (ready_reads p s t pc it W I Ct Ci) as (vs & Hrd & _).
      exists (LEnter t). split; [discriminate|]. unfold enabled, step. rewrite Cur, Nat.eqb_refl, Hrd. eauto.
    + assert (Hk' : k < length (it_waits it)) by lia.
      destruct (nth_error (it_waits it) k) as [x|] eqn:Ex; [|apply nth_error_None in Ex; lia].
      destruct (in_dec var_eq_dec x (s_closed s)) as [Hin|Hnin].
      * exists (LWaitPass t). split; [discriminate|]. unfold enabled, step. rewrite Cur, Ex. unfold mem.
        destruct (in_dec var_eq_dec x (s_closed s)); [eauto|contradiction].
      * (* producer has smaller rank and has not closed x: recurse on its thread *)
        destruct (wfl_wait p rank W t pc it x Ci (nth_error_In _ _ Ex)) as (t' & j' & it' & Hit' & Hn & Hcl & Hrk).
        destruct (nth_error (s_thr s) t') as [st'|] eqn:Ct'.
        2:{ exfalso. apply nth_error_None in Ct'. unfold item_at, items_of in Hit'.
            rewrite nth_overflow in Hit' by (rewrite <- (inv_len _ _ I); lia). destruct j'; discriminate. }
        destruct st' as [pc' ph'|[e|]].
        -- (* producer thread running: its current item has rank <= rank it' < rank it *)
           destruct (le_lt_dec pc' j') as [Hle|Hgt].
           ++ assert (Hex : exists i0, item_at p t' pc' = Some i0 /\ rank (it_node i0) <= rank (it_node it')).
              { destruct (Nat.eq_dec pc' j') as [->|Hne]; [exists it'; split; auto|].
                assert (Hlt : pc' < j') by lia.
                destruct (item_at p t' pc') as [i0|] eqn:E0.
                - exists i0. split; auto. pose proof (wfl_mono p rank W t' pc' j' i0 it' Hlt E0 Hit'). lia.
                - exfalso. unfold item_at in *. apply nth_error_None in E0. apply nth_error_Some_lt in Hit'. lia. }
              destruct Hex as (i0 & E0 & Hr0).
              eapply (IHr (rank (it_node it'))); [lia|exact Ct'|exact E0|exact Hr0].
           ++ exfalso. apply Hnin. eapply (il_done _ _ L t' j' it' x Hit' Hcl). rewrite Ct'. exact Hgt.
        -- exfalso. eapply F; eauto.
        -- exfalso. apply Hnin. eapply (il_done _ _ L t' j' it' x Hit' Hcl). rewrite Ct'. exact Logic.I.
  - (* inside: exit is always possible *)
    exists (LExitOk t). split; [discriminate|]. unfold enabled, step. rewrite Cur. eauto.
  - (* closing *)
    destruct (Nat.eq_dec k (length (it_closes it))) as [->|Hk].
    + exists (LNext t). split; [discriminate|]. unfold enabled, step. rewrite Cur, Nat.eqb_refl. eauto.
    + assert (Hk' : k < length (it_closes it)) by lia.
      destruct (nth_error (it_closes it) k) as [x|] eqn:Ex; [|apply nth_error_None in Ex; lia].
      exists (LClose t). split; [discriminate|]. unfold enabled, step. rewrite Cur, Ex. unfold mem.
      destruct (in_dec var_eq_dec x (s_closed s)) as [Hin|Hnin]; [|eauto].
      (* x already closed: impossible, each channel is closed once *)
      exfalso. destruct (il_closed_src _ _ L x Hin) as (t2 & j2 & it2 & Hit2 & Hc2 & Hp2).
      assert (E1 : fst x = it_node it) by (eapply (wf_closes p W); eauto using nth_error_In).
      assert (E2 : fst x = it_node it2) by (eapply (wf_closes p W); eauto).
      destruct (loc_unique p W _ _ _ _ _ _ Hit2 Ci ltac:(congruence)) as (-> & ->).
      rewrite Hit2 in Ci. inversion Ci; subst it2. rewrite Ct in Hp2.
      destruct Hp2 as [Hp2|(_ & k2 & i2 & Hk2 & Hi2 & Hx2)]; [lia|]. inversion Hk2; subst k2.
      pose proof (wfl_closes_nodup p rank W t pc it Hit2) as ND.
      assert (i2 = k). { eapply NoDup_nth_error; eauto. eapply nth_error_Some_lt; eauto. congruence. }
      lia.
Qed.

(* deadlock freedom: in a state where nobody failed, as long as some thread is still running a step other than
   the caller's cancellation is enabled *)
Theorem progress p rank s : wfl p rank -> Inv p s -> InvL p s -> ffree s ->
  (exists t pc ph, nth_error (s_thr s) t = Some (TRun pc ph)) -> exists l, l <> LCancel /\ enabled p s l.
Proof.
  intros W I L F (t & pc & ph & Ct).
  destruct (item_at p t pc) as [it|] eqn:Ci; [eapply progress_item; eauto|].
  destruct (il_bounds _ _ L t pc ph Ct) as (Hpc & Hend & _).
  assert (Hthr : exists its, nth_error (p_threads p) t = Some its /\ items_of p t = its).
  { assert (t < length (p_threads p)) by (rewrite <- (inv_len _ _ I); eapply nth_error_Some_lt; eauto).
    destruct (nth_error (p_threads p) t) as [its|] eqn:E; [|apply nth_error_None in E; lia].
    exists its. split; auto. unfold items_of. eapply nth_error_nth; eauto. }
  destruct Hthr as (its & Ets & Eits).
  assert (pc = length its). { unfold item_at in Ci. rewrite Eits in *. apply nth_error_None in Ci. lia. }
  subst pc. rewrite Eits in Hend. specialize (Hend eq_refl). subst ph.
  destruct (Nat.eq_dec t 0) as [->|Hne].
  - destruct (forallb isdone (tl (s_thr s))) eqn:Fa.
    + exists (LFin 0). split; [discriminate|]. unfold enabled, step. rewrite Ct, Ets, Nat.eqb_refl. simpl. rewrite Fa. eauto.
    + assert (Hex : exists t', t' <> 0 /\ exists pc' ph', nth_error (s_thr s) t' = Some (TRun pc' ph')).
      { destruct (s_thr s) as [|x l] eqn:Es; [discriminate|]. simpl in Fa.
        assert (exists k y, nth_error l k = Some y /\ isdone y = false).
        { clear - Fa. induction l as [|y l IH]; simpl in Fa; [discriminate|]. destruct (isdone y) eqn:Ey.
          - destruct (IH Fa) as (k & z & Hk & Hz). exists (S k), z. auto.
          - exists 0, y. auto. }
        destruct H as (k & y & Hk & Hy). exists (S k). split; [discriminate|]. destruct y; [eauto|discriminate]. }
      destruct Hex as (t' & Hne & pc' & ph' & Ct').
      destruct (item_at p t' pc') as [it'|] eqn:Ci'; [eapply progress_item; eauto|].
      destruct (il_bounds _ _ L t' pc' ph' Ct') as (Hpc' & Hend' & _).
      assert (t' < length (p_threads p)) by (rewrite <- (inv_len _ _ I); eapply nth_error_Some_lt; eauto).
      destruct (nth_error (p_threads p) t') as [its'|] eqn:E'; [|apply nth_error_None in E'; lia].
      assert (Eits' : items_of p t' = its') by (unfold items_of; eapply nth_error_nth; eauto).
      assert (pc' = length its'). { unfold item_at in Ci'. rewrite Eits' in *. apply nth_error_None in Ci'. lia. }
      subst pc'. rewrite Eits' in Hend'. specialize (Hend' eq_refl). subst ph'.
      exists (LFin t'). split; [discriminate|]. unfold enabled, step. rewrite Ct', E', Nat.eqb_refl.
      apply Nat.eqb_neq in Hne. rewrite Hne. eauto.
  - exists (LFin t). split; [discriminate|]. unfold enabled, step. rewrite Ct, Ets, Nat.eqb_refl.
    apply Nat.eqb_neq in Hne. rewrite Hne. eauto.
Qed.
Print Assumptions progress.
