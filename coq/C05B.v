(* C05, Layer B: for every accepted declaration, the emitted program has an execution - no failure, no cancellation - in
   which ALL needed Async providers without inputs are inside their provider function at the same time. *)
From Coq Require Import List Arith Bool NArith Lia.
Import ListNotations.
Require Import Sem2 Safe Live LiveInv Gen Bfs Final1 Dfs Match GenU CorrS Sched2 Threads Assembly GenSound.

Theorem async_roots_overlap : forall d g, unew_graph d = OK g ->
  exists st, Threads.build (unp g) (upool g) (udeps g) (uisasync g) (uargs g) = Some st /\
  forall roots, NoDup roots -> (forall n, In n roots -> n < nn g /\ unreq g n = 0 /\ uisarg g n = false /\ uisasync g n = true) ->
  exists ls s, forallb ffl ls = true /\ Sem2.run (uprog g st) (Sem2.init (uprog g st)) ls = Some s /\
    forall n, In n roots -> exists t j vs, item_at (uprog g st) t j = Some (uitem g n) /\ nth_error (s_thr s) t = Some (TRun j (PInside vs)).
Proof.
  intros d g H. unfold unew_graph in H.
  destruct (Gen.pass1 [] 0 (Gen.d_provs d)) as [pm1|e] eqn:P1; [|discriminate].
  destruct (Gen.pass2 pm1 (Gen.d_provs d) (filter Gen.isstruct (Gen.d_provs d))) as [[pm provs]|e] eqn:P2; [|discriminate].
  destruct (Gen.assoc (Gen.d_ret d) pm) as [[pi gi]|] eqn:Er; [|discriminate].
  set (req := fun pi0 => match nth_error provs pi0 with Some p => Gen.requires p | None => [] end) in *.
  set (b0 := {| Bfs.nodes := [Bfs.NProv pi]; red := fun _ => []; out := fun _ => []; pn := []; an := []; queue := [0] |}) in *.
  destruct (Bfs.loop req (pm_of pm) (2 + 2 * (length provs + fold_right (fun p a => length (Gen.requires p) + a) 0 provs)) b0 []) as [[b vis]|] eqn:L; [|discriminate].
  destruct (Dfs.dfs_all (fun m => map fst (Bfs.out b m)) (S (length (Bfs.nodes b))) (seq 0 (length (Bfs.nodes b))) (fun _ => White) []) as [[c' fin']|] eqn:D; [|discriminate].
  inversion H; subst g. clear H.
  assert (G1 : pm_good pm1 (Gen.d_provs d)).
  { apply (pass1_good (Gen.d_provs d) [] [] pm1 P1). intros t p0 g0 H0. discriminate. }
  assert (G : pm_good pm provs) by (eapply pass2_good; eauto).
  assert (PMOK : forall t p0 g0, pm_of pm t = Some (p0, g0) -> g0 < nprovides provs p0) by (intros t p0 g0 H0; apply (G t p0 g0 H0)).
  destruct (Bfs.loop_inv req (pm_of pm) (nprovides provs) PMOK _ b0 [] b vis (Final1.b0_inv req (pm_of pm) (nprovides provs) pi) L) as (I & Q).
  destruct (loop_prefix req (pm_of pm) _ b0 [] b vis L) as (ext & Eext). simpl in Eext.
  set (g := {| ub := b; uprovs := provs; uret := gi |}).
  assert (Hnn : nn g = length (Bfs.nodes b)) by reflexivity.
  assert (OS : forall n c i, In (c, i) (uouts g n) <-> c < nn g /\ i < unreq g c /\ usrc g c i = n) by (intros; apply (Bfs.outs_src req (pm_of pm) (nprovides provs) b vis I)).
  assert (SL : forall c i, c < nn g -> i < unreq g c -> usrc g c i < nn g) by (intros; apply (Bfs.src_lt req (pm_of pm) (nprovides provs) b vis I); auto).
  assert (AL : forall n, uisarg g n = true -> n < nn g).
  { intros n Hn. unfold uisarg in Hn. simpl in Hn. destruct (nth_error (Bfs.nodes b) n) eqn:E; [|discriminate]. rewrite Hnn. apply nth_error_Some. congruence. }
  assert (AC : forall c i, c < nn g -> i < unreq g c -> posn (usrc g c i) fin' < posn c fin').
  { intros c i Hc Hi. apply (Dfs.acyclic_rank _ _ _ _ _ D); [apply SL; auto|]. apply in_map_iff. exists (c, i). split; auto. apply OS. auto. }
  assert (CL : forall u v, In v (map fst (uouts g u)) -> v < nn g).
  { intros u v Hv. apply in_map_iff in Hv. destruct Hv as ((c & i) & <- & Hin). apply OS in Hin. apply Hin. }
  assert (HD : forall v, {hasin (fun n => map fst (uouts g n)) v} + {~ hasin (fun n => map fst (uouts g n)) v}).
  { intros v. destruct (lt_dec v (nn g)) as [Hv|Hv]; [destruct (unreq g v) eqn:E|].
    - right. intros (u0 & Hin). apply in_map_iff in Hin. destruct Hin as ((c & i) & Ec & Hin). simpl in Ec. subst c. apply OS in Hin. lia.
    - left. exists (usrc g v 0). apply in_map_iff. exists (v, 0). split; auto. apply OS. repeat split; auto. lia.
    - right. intros (u0 & Hin). apply CL in Hin. contradiction. }
  pose proof (Match.antichain_ge_roots (nn g) (fun n => map fst (uouts g n)) CL HD) as B.
  assert (NR : forall l, NoDup l -> (forall x, In x l -> x < nn g /\ unreq g x = 0 /\ uisarg g x = false /\ uisasync g x = true) -> length l <= unp g).
  { intros l NDl Hl. unfold unp. eapply Nat.le_trans; [|exact B]. unfold nroots. apply NoDup_incl_length; auto.
    intros x Hx. destruct (Hl x Hx) as (Hx1 & Hx2 & _). apply filter_In. split; [apply in_seq; lia|].
    destruct (HD x) as [(u0 & Hu)|]; auto. apply in_map_iff in Hu. destruct Hu as ((c & i) & Ec & Hu). simpl in Ec. subst c. apply OS in Hu. lia. }
  apply (Assembly.emitted_async_roots_overlap (nn g) (uouts g) (unreq g) (usrc g) (usidx g) (unprov g) (uisarg g) (uisasync g) (ufall g) (unp g) (reterr_of g)) with (rank0 := fun x => posn x fin').
  - exact OS.
  - intros n. apply (Bfs.outs_nodup req (pm_of pm) (nprovides provs) b vis I).
  - exact SL.
  - intros c i Hc Hi Ha. unfold uisarg in Ha. simpl in Ha.
    assert (Hs : usrc g c i < length (Bfs.nodes b)) by (apply SL; auto).
    destruct (nth_error (Bfs.nodes b) (usrc g c i)) as [[t|pj]|] eqn:E; [discriminate| |apply nth_error_None in E; exfalso; exact (Nat.lt_irrefl _ (Nat.lt_le_trans _ _ _ Hs E))].
    pose proof (Bfs.sidx_lt req (pm_of pm) (nprovides provs) b vis I c i pj Hc Hi E) as S1.
    assert (U : unprov g (usrc g c i) = nprovides provs pj).
    { unfold unprov, uprov, nprovides. change (Bfs.nodes (GenU.b g)) with (Bfs.nodes b). rewrite E. reflexivity. }
    rewrite U. exact S1.
  - exact AL.
  - exact AC.
  - unfold unp.
    assert (R : 0 < nroots (nn g) (fun n => map fst (uouts g n)) HD); [|lia].
    assert (H0 : 0 < nn g) by (rewrite Hnn, Eext; simpl; lia).
    destruct (exists_root (nn g) (unreq g) (usrc g) (fun x => posn x fin') SL AC (posn 0 fin') 0 H0 (le_n _)) as (v & Hv & Hz).
    unfold nroots. assert (Hin : In v (filter (fun v0 => if HD v0 then false else true) (seq 0 (nn g)))).
    { apply filter_In. split; [apply in_seq; lia|]. destruct (HD v) as [(u0 & Hu)|]; auto. apply in_map_iff in Hu. destruct Hu as ((c & i) & Ec & Hu). simpl in Ec. subst c. apply OS in Hu. lia. }
    destruct (filter _ (seq 0 (nn g))); [destruct Hin | simpl; lia].
  - exists 0. split; [rewrite Hnn, Eext; simpl; lia|]. unfold uisarg. simpl. fold (Bfs.nodes b). rewrite Eext. reflexivity.
  - exact NR.
Qed.
