(* C08, the complete picture: when the injector has returned, either every goroutine has ended, or the injector's own
   thread returned EARLY - at one of its own waits observing a context error, or with the error of a provider it invoked
   itself.  Nothing else leaves a goroutine behind (KF-C08-1 is exactly the second alternative). *)
From Coq Require Import List Arith Lia Bool.
Import ListNotations.
Require Import Sem2 Safe Fault Term.

Definition on_main (p : prog) (n : nat) : Prop := exists j it, item_at p 0 j = Some it /\ it_node it = n.
Definition early (p : prog) (s : state) (e : err) : Prop :=
  e = ECtxInt \/ e = ECtxExt \/ exists n, e = EProv n /\ on_main p n /\ In (ExitErr n) (s_trace s).
Definition KInv (p : prog) (s : state) : Prop :=
  forall e, nth_error (s_thr s) 0 = Some (TDone e) ->
    forallb isdone (tl (s_thr s)) = true \/ exists e', e = Some e' /\ early p s e'.

Lemma tl_upd0 {A} (l : list A) x : tl (upd l 0 x) = tl l. Proof. destruct l; reflexivity. Qed.
Lemma early_mono p s s' e : (forall x, In x (s_trace s) -> In x (s_trace s')) -> early p s e -> early p s' e.
Proof. intros M [H|[H|(n & H1 & H2 & H3)]]; [left; auto | right; left; auto | right; right; exists n; auto]. Qed.

(* a step of thread t that leaves the rest alone *)
Lemma kinv_move p s s' t pc ph x : KInv p s -> nth_error (s_thr s) t = Some (TRun pc ph) -> s_thr s' = upd (s_thr s) t x ->
  (forall y, In y (s_trace s) -> In y (s_trace s')) ->
  (t = 0 -> forall e, x = TDone e -> forallb isdone (tl (s_thr s)) = true \/ exists e', e = Some e' /\ early p s' e') ->
  KInv p s'.
Proof.
  intros K Ct Ht M Hx e H0. rewrite Ht in *. assert (Hlt : t < length (s_thr s)) by (eapply nth_error_Some_lt; eauto).
  destruct (Nat.eq_dec t 0) as [->|Hne].
  - rewrite nth_error_upd_eq in H0 by auto. inversion H0; subst x. rewrite tl_upd0. apply Hx; auto.
  - rewrite nth_error_upd_neq in H0 by auto. destruct (K e H0) as [D|(e' & -> & E)].
    + exfalso. pose proof (forallb_tl_done _ D t _ Hne Ct). discriminate.
    + right. exists e'. split; auto. eapply early_mono; eauto.
Qed.

Lemma kinv_step p s l s' : KInv p s -> step p s l = Some s' -> KInv p s'.
Proof.
  intros K H. apply (step_cases p s l s' (fun _ s' => KInv p s') H); clear H.
  - intros t pc k it x C _ _. apply cur_spec in C. destruct C as (Ct & _).
    eapply (kinv_move p s _ t pc); [exact K | exact Ct | reflexivity | auto | intros; discriminate].
  - intros t pc k it x e C _ _ He. apply cur_spec in C. destruct C as (Ct & _).
    eapply (kinv_move p s _ t pc); [exact K | exact Ct | reflexivity | auto |].
    intros _ e0 E. inversion E; subst e0. right. exists e. split; auto. destruct He as [(-> & _)|(-> & _)]; [right; left; auto | left; auto].
  - intros t pc it vs C _. apply cur_spec in C. destruct C as (Ct & _).
    eapply (kinv_move p s _ t pc); [exact K | exact Ct | reflexivity | intros y Hy; right; exact Hy | intros; discriminate].
  - intros t pc it vs C. apply cur_spec in C. destruct C as (Ct & _).
    eapply (kinv_move p s _ t pc); [exact K | exact Ct | reflexivity | intros y Hy; right; exact Hy | intros; discriminate].
  - intros t pc it vs C _. apply cur_spec in C. destruct C as (Ct & Ci).
    eapply (kinv_move p s _ t pc); [exact K | exact Ct | reflexivity | intros y Hy; right; exact Hy |].
    intros -> e0 E. inversion E; subst e0. right. eexists. split; [reflexivity|]. right. right. exists (it_node it). split; auto. split; [exists pc, it; auto | left; auto].
  - intros t pc k it x C _ _. apply cur_spec in C. destruct C as (Ct & _).
    eapply (kinv_move p s _ t pc); [exact K | exact Ct | reflexivity | auto | intros; discriminate].
  - intros t pc it C. apply cur_spec in C. destruct C as (Ct & _).
    eapply (kinv_move p s _ t pc); [exact K | exact Ct | reflexivity | auto | intros; discriminate].
  - intros t pc its Ct _ _ Hj.
    eapply (kinv_move p s _ t pc); [exact K | exact Ct | reflexivity | auto |]. intros -> e0 _. left. apply Hj. reflexivity.
  - intros e H0. destruct (K e H0) as [D|(e' & -> & E)]; [left; exact D | right; exists e'; split; auto].
Qed.

Lemma kinv_init p : KInv p (init p).
Proof. intros e H. unfold init in H. cbn [s_thr] in H. destruct (p_threads p); simpl in H; discriminate. Qed.

Theorem leak_only_after_early_return p : forall ls s e, run p (init p) ls = Some s -> nth_error (s_thr s) 0 = Some (TDone e) ->
  (forall t st, nth_error (s_thr s) t = Some st -> isdone st = true) \/ exists e', e = Some e' /\ early p s e'.
Proof.
  intros ls. assert (G : forall s0 s, KInv p s0 -> run p s0 ls = Some s -> KInv p s).
  { induction ls as [|l r IH]; intros s0 s K R; simpl in R; [inversion R; subst; auto|].
    destruct (step p s0 l) as [s1|] eqn:E; [|discriminate]. apply (IH s1 s); auto. eapply kinv_step; eauto. }
  intros s e R H0. destruct (G _ _ (kinv_init p) R e H0) as [D|E]; [left|right; auto].
  intros t st Ht. destruct (Nat.eq_dec t 0) as [->|Hne]; [rewrite H0 in Ht; inversion Ht; reflexivity | eapply forallb_tl_done; eauto].
Qed.
