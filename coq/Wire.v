(* C13: a model of google/wire's resolution (internal/wire/analyze.go of v0.7.0, as far as the supported constructs go), of
   kessoku's resolution of the migrated declarations, and of the rewriting done by internal/migrate/transform_*.go.
   Types, provider functions and values are opaque identifiers. A term records which provider was applied to what. *)
From Coq Require Import List Arith Lia Bool NArith.
Import ListNotations.

Inductive term :=
| TArg (t : N)                          (* an injector argument of type t *)
| TVal (v : nat)                        (* the value expression v of wire.Value / wire.InterfaceValue *)
| TFn (f : nat) (args : list term)      (* provider function f applied to args *)
| TStruct (pty : N) (args : list term)  (* &T{fields...} *)
| TField (s : term) (k : nat).          (* s.Field_k *)

(* how a type is supplied *)
Inductive sup :=
| SFn (f : nat) (reqs : list N)
| SVal (v : nat)
| SStruct (pty : N) (fields : list N)
| SField (parent : N) (k : nat).

Inductive welem :=
| WProv (f : nat) (reqs : list N) (out : N)
| WBind (iface conc : N)
| WValue (v : nat) (ty : N)
| WIValue (v : nat) (iface vty : N)
| WStruct (pty : N) (fields : list N)
| WFieldsOf (parent : N) (fields : list (nat * N)).
Definition wcfg := list welem.

Fixpoint assoc (t : N) (l : list (N * sup)) : option sup :=
  match l with [] => None | (k, s) :: r => if N.eqb t k then Some s else assoc t r end.

(* ---- evaluation, generic in the supplier table and in what counts as an argument ---- *)
Fixpoint mapM {A B} (f : A -> option B) (l : list A) : option (list B) :=
  match l with
  | [] => Some []
  | x :: r => match f x, mapM f r with Some y, Some ys => Some (y :: ys) | _, _ => None end
  end.
Fixpoint geval (fuel : nat) (lk : N -> option sup) (isarg : N -> bool) (t : N) : option term :=
  match fuel with
  | 0 => None
  | S fuel =>
      if isarg t then Some (TArg t)
      else match lk t with
           | Some (SFn f reqs) => option_map (TFn f) (mapM (geval fuel lk isarg) reqs)
           | Some (SVal v) => Some (TVal v)
           | Some (SStruct pty fields) => option_map (TStruct pty) (mapM (geval fuel lk isarg) fields)
           | Some (SField parent k) => option_map (fun s => TField s k) (geval fuel lk isarg parent)
           | None => None
           end
  end.

(* ---- wire: providers, values, struct and field providers supply their types directly; a binding supplies the
   interface by whatever supplies the concrete type ---- *)
Definition dpairs (e : welem) : list (N * sup) :=
  match e with
  | WProv f reqs out => [(out, SFn f reqs)]
  | WBind _ _ => []
  | WValue v ty => [(ty, SVal v)]
  | WIValue v iface _ => [(iface, SVal v)]
  | WStruct pty fields => [(pty, SStruct pty fields)]
  | WFieldsOf parent fields => map (fun kf => (snd kf, SField parent (fst kf))) fields
  end.
Definition direct (cfg : wcfg) : list (N * sup) := flat_map dpairs cfg.
Definition bpairs (cfg : wcfg) (e : welem) : list (N * sup) :=
  match e with
  | WBind iface conc => match assoc conc (direct cfg) with Some s => [(iface, s)] | None => [] end
  | _ => []
  end.
Definition wpairs (cfg : wcfg) : list (N * sup) := direct cfg ++ flat_map (bpairs cfg) cfg.
(* wire's injector: declared parameters are "given"; everything else must be supplied by the configuration *)
Definition weval (fuel : nat) (cfg : wcfg) (given : N -> bool) (t : N) : option term :=
  geval fuel (fun t => assoc t (wpairs cfg)) given t.

(* ---- kessoku: a migrated provider is the list of types it supplies (with how); a type nobody supplies becomes an
   injector argument ---- *)
Definition kprov := list (N * sup).
Definition kpairs (ps : list kprov) : list (N * sup) := concat ps.
Definition keval (fuel : nat) (ps : list kprov) (t : N) : option term :=
  geval fuel (fun t => assoc t (kpairs ps)) (fun t => match assoc t (kpairs ps) with None => true | Some _ => false end) t.

(* ---- migrate: per construct rewriting ---- *)
Definition memN (x : N) (l : list N) : bool := existsb (N.eqb x) l.
Definition bound (cfg : wcfg) : list N := flat_map (fun e => match e with WBind _ c => [c] | _ => [] end) cfg.
Fixpoint find_prov (cfg : wcfg) (c : N) : option (nat * list N) :=
  match cfg with
  | [] => None
  | WProv f reqs out :: r => if N.eqb c out then Some (f, reqs) else find_prov r c
  | _ :: r => find_prov r c
  end.
Definition melem (all : wcfg) (e : welem) : list kprov :=
  match e with
  | WProv f reqs out => if memN out (bound all) then [] else [[(out, SFn f reqs)]]            (* kessoku.Provide(f) *)
  | WBind iface conc => match find_prov all conc with                                         (* kessoku.Bind[I](kessoku.Provide(New<Impl>)) *)
                        | Some (f, reqs) => [[(conc, SFn f reqs); (iface, SFn f reqs)]]
                        | None => [] end
  | WValue v ty => [[(ty, SVal v)]]                                                           (* kessoku.Value(v) *)
  | WIValue v iface vty => [[(vty, SVal v); (iface, SVal v)]]                                 (* kessoku.Bind[I](kessoku.Value(v)) *)
  | WStruct pty fields => [[(pty, SStruct pty fields)]]                                       (* kessoku.Provide(func(fields...) *T { return &T{...} }) *)
  | WFieldsOf parent fields => [map (fun kf => (snd kf, SField parent (fst kf))) fields]      (* kessoku.Provide(func(s *S) (F1, F2) { ... }) *)
  end.
Definition migrate (cfg : wcfg) : list kprov := flat_map (melem cfg) cfg.

(* ---- the fragment: what the theorem assumes about a configuration ---- *)
Definition ivtys (cfg : wcfg) : list N := flat_map (fun e => match e with WIValue _ _ vty => [vty] | _ => [] end) cfg.
Record safe (cfg : wcfg) (given : N -> bool) : Prop := {
  sf_direct_nodup : NoDup (map fst (direct cfg));                          (* wire: no type is supplied twice *)
  sf_bind_prov : forall i c, In (WBind i c) cfg -> exists f reqs, In (WProv f reqs c) cfg;  (* a bound implementation has its constructor in the set *)
  sf_k_nodup : NoDup (map fst (kpairs (migrate cfg)));                     (* kessoku's duplicate-supplier check accepts the migrated file *)
  sf_given : forall t, given t = true -> ~ In t (map fst (kpairs (migrate cfg))) }.   (* an injector parameter's type is not also supplied *)

Lemma assoc_in t s l : assoc t l = Some s -> In (t, s) l.
Proof. induction l as [|[k v] r IH]; simpl; [discriminate|]. destruct (N.eqb_spec t k) as [->|]; [intros H; inversion H; auto | auto]. Qed.
Lemma in_assoc t s l : NoDup (map fst l) -> In (t, s) l -> assoc t l = Some s.
Proof.
  induction l as [|[k v] r IH]; simpl; intros ND H; [destruct H|]. inversion ND; subst.
  destruct H as [H|H]; [inversion H; subst; rewrite N.eqb_refl; reflexivity|].
  destruct (N.eqb_spec t k) as [->|]; [exfalso; apply H2; apply (in_map fst) in H; exact H | auto].
Qed.
Lemma assoc_none t l : assoc t l = None -> ~ In t (map fst l).
Proof. induction l as [|[k v] r IH]; simpl; [tauto|]. destruct (N.eqb_spec t k) as [->|N0]; [discriminate|]. intros H [E|E]; [congruence|apply IH; auto]. Qed.
Lemma notin_assoc t l : ~ In t (map fst l) -> assoc t l = None.
Proof. induction l as [|[k v] r IH]; simpl; auto. intros H. destruct (N.eqb_spec t k) as [->|]; [exfalso; apply H; auto | apply IH; tauto]. Qed.
Lemma memN_true x l : memN x l = true <-> In x l.
Proof. unfold memN. rewrite existsb_exists. split; [intros (y & H & E); apply N.eqb_eq in E; subst; auto | intros H; exists x; split; auto; apply N.eqb_refl]. Qed.

Lemma find_prov_in cfg c f reqs : find_prov cfg c = Some (f, reqs) -> In (WProv f reqs c) cfg.
Proof.
  induction cfg as [|e r IH]; simpl; [discriminate|].
  destruct e as [f' reqs' out|i0 c0|v0 ty0|v0 i0 vty0|pty0 fields0|parent0 fields0]; try (intro Hx; right; apply IH; exact Hx).
  destruct (N.eqb_spec c out) as [->|Hne]; intro Hx; [inversion Hx; subst; left; reflexivity | right; apply IH; exact Hx].
Qed.
Lemma in_direct_of_prov cfg f reqs c : In (WProv f reqs c) cfg -> In (c, SFn f reqs) (direct cfg).
Proof. intros H. unfold direct. apply in_flat_map. exists (WProv f reqs c). split; auto. simpl; auto. Qed.
Lemma find_prov_unique cfg c f reqs : NoDup (map fst (direct cfg)) -> In (WProv f reqs c) cfg -> find_prov cfg c = Some (f, reqs).
Proof.
  intros ND H. destruct (find_prov cfg c) as [[f' reqs']|] eqn:E.
  - apply find_prov_in in E. apply in_direct_of_prov in E. apply in_direct_of_prov in H.
    pose proof (in_assoc _ _ _ ND E) as A1. pose proof (in_assoc _ _ _ ND H) as A2. congruence.
  - exfalso. clear ND. induction cfg as [|e r IH]; [destruct H|]. simpl in E. destruct H as [->|H].
    + rewrite N.eqb_refl in E. discriminate.
    + apply IH; auto. destruct e; auto. destruct (N.eqb c out); [discriminate|auto].
Qed.

(* every supplier wire knows is a supplier of the migrated declarations, with the same meaning *)
Lemma wire_pairs_migrated cfg given : safe cfg given -> forall t s, In (t, s) (wpairs cfg) -> In (t, s) (kpairs (migrate cfg)).
Proof.
  intros S t s H. unfold wpairs in H. apply in_app_or in H. unfold kpairs, migrate.
  destruct H as [H|H].
  - unfold direct in H. apply in_flat_map in H. destruct H as (e & He & Hp).
    destruct e as [f reqs out|i c|v ty|v i vty|pty fields|parent fields]; simpl in Hp.
    + destruct Hp as [Hp|[]]. injection Hp as <- <-. destruct (memN out (bound cfg)) eqn:B.
      * (* bound implementation: supplied by the Bind's provider *)
        apply memN_true in B. unfold bound in B. apply in_flat_map in B. destruct B as (e' & He' & Hc).
        destruct e'; simpl in Hc; try contradiction. destruct Hc as [->|[]].
        apply in_concat. exists [(out, SFn f reqs); (iface, SFn f reqs)]. split; [|left; reflexivity].
        apply in_flat_map. exists (WBind iface out). split; auto. simpl. rewrite (find_prov_unique cfg out f reqs (sf_direct_nodup _ _ S) He). left; reflexivity.
      * apply in_concat. exists [(out, SFn f reqs)]. split; [|left; reflexivity]. apply in_flat_map. exists (WProv f reqs out). split; auto. simpl. rewrite B. left; reflexivity.
    + destruct Hp.
    + destruct Hp as [Hp|[]]. injection Hp as <- <-. apply in_concat. exists [(ty, SVal v)]. split; [|left; reflexivity]. apply in_flat_map. exists (WValue v ty). split; auto. simpl; auto.
    + destruct Hp as [Hp|[]]. injection Hp as <- <-. apply in_concat. exists [(vty, SVal v); (i, SVal v)]. split; [|right; left; reflexivity]. apply in_flat_map. exists (WIValue v i vty). split; auto. simpl; auto.
    + destruct Hp as [Hp|[]]. injection Hp as <- <-. apply in_concat. exists [(pty, SStruct pty fields)]. split; [|left; reflexivity]. apply in_flat_map. exists (WStruct pty fields). split; auto. simpl; auto.
    + apply in_concat. exists (map (fun kf => (snd kf, SField parent (fst kf))) fields). split; [|exact Hp]. apply in_flat_map. exists (WFieldsOf parent fields). split; auto. simpl; auto.
  - apply in_flat_map in H. destruct H as (e & He & Hp). destruct e as [f reqs out|i c|v ty|v i vty|pty fields|parent fields]; simpl in Hp; try contradiction.
    destruct (assoc c (direct cfg)) as [s0|] eqn:A; [|destruct Hp]. destruct Hp as [Hp|[]]. injection Hp as <- <-.
    destruct (sf_bind_prov _ _ S i c He) as (f & reqs & Hprov).
    assert (Es : s0 = SFn f reqs). { pose proof (in_assoc _ _ _ (sf_direct_nodup _ _ S) (in_direct_of_prov _ _ _ _ Hprov)) as A2. congruence. }
    rewrite Es. apply in_concat. exists [(c, SFn f reqs); (i, SFn f reqs)]. split; [|right; left; reflexivity].
    apply in_flat_map. exists (WBind i c). split; auto. simpl. rewrite (find_prov_unique cfg c f reqs (sf_direct_nodup _ _ S) Hprov). left; reflexivity.
Qed.

Lemma mapM_ext {A B} (f g : A -> option B) l ys : (forall x y, In x l -> f x = Some y -> g x = Some y) -> mapM f l = Some ys -> mapM g l = Some ys.
Proof.
  revert ys. induction l as [|x r IH]; intros ys H E; simpl in *; auto.
  destruct (f x) as [y|] eqn:Ex; [|discriminate]. destruct (mapM f r) as [ys'|] eqn:Er; [|discriminate]. inversion E; subst.
  rewrite (H x y (or_introl eq_refl) Ex). rewrite (IH ys'); auto.
Qed.

(* generic: a richer table that agrees on every entry of the smaller one, and treats the smaller table's arguments as arguments *)
Lemma geval_mono lk1 a1 lk2 a2 :
  (forall t s, a1 t = false -> lk1 t = Some s -> lk2 t = Some s /\ a2 t = false) ->
  (forall t, a1 t = true -> a2 t = true) ->
  forall fuel t tm, geval fuel lk1 a1 t = Some tm -> geval fuel lk2 a2 t = Some tm.
Proof.
  intros H1 H2. induction fuel as [|fuel IH]; intros t tm E; simpl in *; [discriminate|].
  destruct (a1 t) eqn:A.
  - rewrite (H2 t A). exact E.
  - destruct (lk1 t) as [s|] eqn:L; [|discriminate]. destruct (H1 t s A L) as (L2 & A2). rewrite A2, L2.
    destruct s as [f reqs|v|pty fields|parent k]; auto.
    + destruct (mapM (geval fuel lk1 a1) reqs) as [ys|] eqn:M; [|discriminate]. rewrite (mapM_ext (geval fuel lk1 a1) (geval fuel lk2 a2) reqs ys); auto.
    + destruct (mapM (geval fuel lk1 a1) fields) as [ys|] eqn:M; [|discriminate]. rewrite (mapM_ext (geval fuel lk1 a1) (geval fuel lk2 a2) fields ys); auto.
    + destruct (geval fuel lk1 a1 parent) as [s|] eqn:M; [|discriminate]. rewrite (IH parent s M). exact E.
Qed.

(* C13, safe fragment: whatever wire's injector computes for a requested type (from its declared parameters), the
   injector kessoku generates from the migrated declarations computes the same term - the same provider functions
   applied to the same inputs, the same values, struct constructions and field reads - and uses as arguments exactly
   the parameter types wire's evaluation used. *)
Theorem migrate_preserves cfg given : safe cfg given ->
  forall fuel t tm, weval fuel cfg given t = Some tm -> keval fuel (migrate cfg) t = Some tm.
Proof.
  intros S fuel t tm E. unfold weval in E. unfold keval. eapply geval_mono; [| |exact E].
  - intros t0 s A L. apply assoc_in in L. apply (wire_pairs_migrated cfg given S) in L.
    rewrite (in_assoc _ _ _ (sf_k_nodup _ _ S) L). split; reflexivity.
  - intros t0 A. rewrite (notin_assoc _ _ (sf_given _ _ S t0 A)). reflexivity.
Qed.

(* correspondence with the real tools: the model's terms against the terms the two generated injectors returned *)
Fixpoint term_eqb (a b : term) : bool :=
  match a, b with
  | TArg x, TArg y => N.eqb x y
  | TVal x, TVal y => Nat.eqb x y
  | TFn f xs, TFn g ys => Nat.eqb f g && (fix go (l r : list term) : bool := match l, r with [], [] => true | x :: l', y :: r' => term_eqb x y && go l' r' | _, _ => false end) xs ys
  | TStruct p xs, TStruct q ys => N.eqb p q && (fix go (l r : list term) : bool := match l, r with [], [] => true | x :: l', y :: r' => term_eqb x y && go l' r' | _, _ => false end) xs ys
  | TField s k, TField s' k' => term_eqb s s' && Nat.eqb k k'
  | _, _ => false
  end.
Definition oterm_eqb (a : option term) (b : term) : bool := match a with Some x => term_eqb x b | None => false end.
(* case: (id, cfg, given types, requested type, term returned by wire's injector, term returned by kessoku's injector) *)
Definition wire_mismatches (cs : list (nat * (wcfg * list N * N * term * term))) : list (nat * nat) :=
  flat_map (fun c => let '(cfg, gv, t, tw, tk) := snd c in
                     let w := weval 64 cfg (fun x => memN x gv) t in
                     let k := keval 64 (migrate cfg) t in
                     (if oterm_eqb w tw then [] else [(fst c, 1)]) ++ (if oterm_eqb k tk then [] else [(fst c, 2)])) cs.
