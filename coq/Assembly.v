From Coq Require Import List Arith Lia Bool.
Import ListNotations.
Require Import Sem2 Safe Live LiveInv Kahn Pool Threads Sched2 Check Overlap.

(* From the graph facts to the properties of every run of the emitted program *)
Section Assembly.
Variable nn : nat.
Variable outs : nat -> list (nat * nat).
Variable nreq : nat -> nat.
Variable src sidx : nat -> nat -> nat.
Variable nprov : nat -> nat.
Variable isarg isasync fallible : nat -> bool.
Variable np : nat.
Variable reterr : bool.

Hypothesis outs_src : forall n c i, In (c, i) (outs n) <-> (c < nn /\ i < nreq c /\ src c i = n).
Hypothesis outs_nodup : forall n, NoDup (outs n).
Hypothesis src_lt : forall c i, c < nn -> i < nreq c -> src c i < nn.
Hypothesis sidx_lt : forall c i, c < nn -> i < nreq c -> isarg (src c i) = false -> sidx c i < nprov (src c i).
Hypothesis arg_noreq : forall n, isarg n = true -> nreq n = 0.
Hypothesis arg_lt : forall n, isarg n = true -> n < nn.
Variable rank0 : nat -> nat.
Hypothesis acyclic : forall c i, c < nn -> i < nreq c -> rank0 (src c i) < rank0 c.
Hypothesis np_pos : 0 < np.
Hypothesis has_provider : exists n, n < nn /\ isarg n = false.

Let pool := Sched2.pool nn outs nreq src isarg isasync np.
Let deps := Sched2.deps nreq src.
Let args := Sched2.args nn isarg.
Let rk := Sched2.rk nn outs nreq.

Lemma threads_exist : exists st, Threads.build np pool deps isasync args = Some st /\
  NoDup (0 :: Threads.gos st) /\ (forall i, In i (0 :: Threads.gos st) -> i < np /\ pool i <> []) /\
  (forall i, i < np -> pool i <> [] -> In i (0 :: Threads.gos st)) /\ Threads.mainl st = pool 0.
Proof.
  assert (P0 : pool 0 <> []) by (apply Sched2.pool0_nonempty with (rank0 := rank0); auto).
  apply (Threads.build_spec np pool deps isasync args rk); auto.
  - apply Sched2.first0_ready_ok with (rank0 := rank0); auto.
  - apply Sched2.later_async_ok with (rank0 := rank0); auto.
  - apply Sched2.dep_placed_ok with (rank0 := rank0); auto.
  - apply Sched2.first_min_ok with (rank0 := rank0); auto.
Qed.

(* the emitted program for the thread order chosen by buildStmts *)
Definition prog_of (st : Threads.bst) : prog :=
  Sched2.P nn outs nreq src sidx nprov isarg isasync np fallible reterr (0 :: Threads.gos st).

Theorem emitted_wfl : exists st, Threads.build np pool deps isasync args = Some st /\ wfl (prog_of st) rk.
Proof.
  destruct threads_exist as (st & B & ND & V & C & M). exists st. split; auto.
  apply Sched2.P_wfl with (rank0 := rank0); auto.
Qed.


(* C05 for the emitted program: all asynchronous providers without parameters can be inside their provider function at
   the same time - whatever else the injector contains *)
Hypothesis np_roots : forall l, NoDup l -> (forall x, In x l -> x < nn /\ nreq x = 0 /\ isarg x = false /\ isasync x = true) -> length l <= np.
Let mkitem := Sched2.mkitem nn outs nreq src sidx nprov isarg isasync np fallible.

Theorem emitted_async_roots_overlap : exists st, Threads.build np pool deps isasync args = Some st /\
  forall roots, NoDup roots -> (forall n, In n roots -> n < nn /\ nreq n = 0 /\ isarg n = false /\ isasync n = true) ->
  exists ls s, forallb ffl ls = true /\ Sem2.run (prog_of st) (Sem2.init (prog_of st)) ls = Some s /\
    forall n, In n roots -> exists t j vs, item_at (prog_of st) t j = Some (mkitem n) /\ nth_error (s_thr s) t = Some (TRun j (PInside vs)).
Proof.
  destruct threads_exist as (st & B & ND & V & C & M). exists st. split; auto.
  assert (W : wfl (prog_of st) rk) by (apply Sched2.P_wfl with (rank0 := rank0); auto).
  intros roots NDr Hr.
  assert (L : exists F, Forall2 (fun n tj => item_at (prog_of st) (fst tj) (snd tj) = Some (mkitem n) /\ waitfree_upto (prog_of st) tj) roots F).
  { clear NDr. induction roots as [|n r IH]; [exists []; constructor|].
    destruct IH as (F & HF); [intros m Hm; apply Hr; right; auto|].
    destruct (Hr n (or_introl eq_refl)) as (Hn & Hq & Ha & _).
    destruct (Sched2.root_located nn outs nreq src sidx nprov isarg isasync np outs_src outs_nodup src_lt rank0 acyclic np_pos fallible reterr (0 :: Threads.gos st) C n Hn Ha Hq) as (t & j & Hi & Hw).
    exists ((t, j) :: F). constructor; auto. split; [exact Hi|]. split; [exists (mkitem n); exact Hi | exact Hw]. }
  destruct L as (F & HF).
  assert (NDF : NoDup (map fst F)).
  { revert NDr Hr. induction HF as [|n tj r F (Hi & _) HF IH]; intros NDr Hr; [constructor|]. simpl. inversion NDr; subst.
    constructor; [|apply IH; auto; intros m Hm; apply Hr; right; auto].
    intro Hin. apply in_map_iff in Hin. destruct Hin as (tj' & Et & Hin').
    assert (Hex : exists n', In n' r /\ item_at (prog_of st) (fst tj') (snd tj') = Some (mkitem n')).
    { clear - HF Hin'. induction HF as [|a b r F (Hab & _) HF IH]; [destruct Hin'|]. destruct Hin' as [<-|Hin']; [exists a; split; [left|]; auto|].
      destruct (IH Hin') as (n' & A & B). exists n'. split; [right|]; auto. }
    destruct Hex as (n' & Hn' & Hi'). rewrite Et in Hi'.
    destruct (Hr n (or_introl eq_refl)) as (_ & Hq & _ & Has). destruct (Hr n' (or_intror Hn')) as (_ & Hq' & _ & Has').
    assert (n = n'); [|subst; contradiction].
    eapply (Sched2.root_threads_distinct nn outs nreq src sidx nprov isarg isasync np outs_src outs_nodup src_lt rank0 acyclic np_pos fallible reterr (0 :: Threads.gos st) np_roots); eauto. }
  destruct (overlap (prog_of st) rk W F NDF) as (ls & s & Hf & R & Hin).
  { intros tj Htj. clear - HF Htj. induction HF as [|a b r F (_ & Hw) HF IH]; [destruct Htj|]. destruct Htj as [<-|Htj]; auto. }
  exists ls, s. split; auto. split; auto. intros n Hn.
  assert (Hex : exists tj, In tj F /\ item_at (prog_of st) (fst tj) (snd tj) = Some (mkitem n)).
  { clear - HF Hn. induction HF as [|a b r F (Hab & _) HF IH]; [destruct Hn|]. destruct Hn as [<-|Hn]; [exists b; split; [left|]; auto|].
    destruct (IH Hn) as (tj & A & B). exists tj. split; [right|]; auto. }
  destruct Hex as (tj & Htj & Hi). destruct (Hin tj Htj) as (vs & Hs). exists (fst tj), (snd tj), vs. auto.
Qed.

(* C01 (order and values) and C03 (deadlock freedom and join), for every run of the emitted program *)
Theorem C01_C03_for_emitted : exists st, Threads.build np pool deps isasync args = Some st /\
  (forall ls s t pc it, let p := prog_of st in Sem2.run p (Sem2.init p) ls = Some s ->
     nth_error (s_thr s) t = Some (TRun pc (PWait (length (it_waits it)))) -> item_at p t pc = Some it ->
     exists s' vs, Sem2.step p s (LEnter t) = Some s' /\ s_trace s' = Enter (it_node it) vs :: s_trace s /\
                   Forall2 (good_read p s) (it_args it) vs) /\
  (forall ls s, let p := prog_of st in forallb ffl ls = true -> Sem2.run p (Sem2.init p) ls = Some s -> (forall l, l <> LCancel -> Sem2.step p s l = None) ->
     forall t st', nth_error (s_thr s) t = Some st' -> st' = TDone None).
Proof.
  destruct emitted_wfl as (st & B & W). exists st. split; auto. split.
  - intros ls s t pc it p R Ct Ci. destruct (enter_after_deps _ ls s (wfl_wf _ _ W) R t pc it Ct Ci) as (s' & E & vs & Et & F). eauto.
  - intros ls s p F R Hmax. eapply C03_joined; eauto.
Qed.
End Assembly.
Print Assumptions C01_C03_for_emitted.
