(* Static correspondence (DESIGN 4.1): what the model generator predicts for a declaration, in the shape the
   harness observes in a generated *_band.go file, and the comparison run by vm_compute. *)
From Coq Require Import List Arith Bool NArith.
Import ListNotations.
Require Import Gen Bfs Dfs Kahn Match Pool Sem2 Sched2 Threads Corr GenU.

Definition ctx_ty : N := 0%N.          (* the harness numbers context.Context as type 0 *)

Record xitem := mkx { x_pi : nat; x_args : list src; x_waits : list src; x_closes : list nat; x_fall : bool; x_async : bool }.
Record xsig := mksig { sg_params : list N; sg_reterr : bool }.
Inductive xres :=
| XRej (code : nat)                                   (* 1 duplicate supplier, 2 orphan struct, 3 cycle *)
| XAcc (sg : xsig) (main : list xitem) (gos : list (list xitem)).

Definition xitem_eqb a b :=
  Nat.eqb (x_pi a) (x_pi b) && list_eqb src_eqb (x_args a) (x_args b) && list_eqb src_eqb (x_waits a) (x_waits b)
  && list_eqb Nat.eqb (x_closes a) (x_closes b) && Bool.eqb (x_fall a) (x_fall b) && Bool.eqb (x_async a) (x_async b).
Definition xsig_eqb a b := list_eqb N.eqb (sg_params a) (sg_params b) && Bool.eqb (sg_reterr a) (sg_reterr b).
Definition xres_eqb a b :=
  match a, b with
  | XRej x, XRej y => Nat.eqb x y
  | XAcc s m g, XAcc s' m' g' => xsig_eqb s s' && list_eqb xitem_eqb m m' && list_eqb (list_eqb xitem_eqb) g g'
  | _, _ => false
  end.

Section Sig.
Variable g : ugraph.
Definition unodes := Bfs.nodes (ub g).
Definition uhas_async : bool := existsb (uisasync g) (seq 0 (length unodes)).
Definition uhas_fall : bool := existsb (ufall g) (seq 0 (length unodes)).
Definition uarg_types : list N :=
  flat_map (fun k => match k with Bfs.NArg t => [t] | _ => [] end) unodes.
Definition uparams : list N :=
  if uhas_async then ctx_ty :: filter (fun t => negb (N.eqb t ctx_ty)) uarg_types else uarg_types.
Definition usig : xsig := mksig uparams uhas_fall.
End Sig.

Definition umodel (d : Gen.decl) : xres :=
  match unew_graph d with
  | Err 8 => XAcc (mksig [Gen.d_ret d] false) [] []          (* requested type is an injector argument *)
  | Err e => XRej e
  | OK g =>
      match uthreads g with
      | None => XRej 6
      | Some tix =>
          let tosrc (x : nat * nat) := match nth_error (Bfs.nodes (ub g)) (fst x) with
                                       | Some (Bfs.NArg t) => SArg t | Some (Bfs.NProv pi) => SVar pi (snd x) | None => SArg 0 end in
          let conv (m : nat) := let it := uitem g m in
                                mkx (match nth_error (Bfs.nodes (ub g)) m with Some (Bfs.NProv pi) => pi | _ => 9999 end)
                                    (map tosrc (Sem2.it_args it)) (map tosrc (Sem2.it_waits it)) (map snd (Sem2.it_closes it))
                                    (ufall g m) (uisasync g m) in
          match map (fun i => map conv (upool g i)) tix with
          | main :: gos => XAcc (usig g) main gos
          | [] => XRej 6 end
      end
  end.

(* which component differs: 1 = accept/reject verdict, 2 = signature, 4 = thread programs (sum of the codes) *)
Definition xdiff (a b : xres) : nat :=
  match a, b with
  | XRej x, XRej y => if Nat.eqb x y then 0 else 1
  | XAcc s m g, XAcc s' m' g' =>
      (if xsig_eqb s s' then 0 else 2) + (if list_eqb xitem_eqb m m' && list_eqb (list_eqb xitem_eqb) g g' then 0 else 4)
  | _, _ => 1
  end.
Definition xmismatches (cs : list (nat * (Gen.decl * xres))) : list (nat * nat) :=
  flat_map (fun c => match xdiff (umodel (fst (snd c))) (snd (snd c)) with 0 => [] | k => [(fst c, k)] end) cs.
