(* Data-race freedom of well-synchronised thread programs (C01, second sentence).
   A race state is an SC state in which one thread's next action is the read of a variable (it stands before the
   provider call that takes the variable as an argument, all its waits passed) while a different thread's next
   action is the write of that variable (it is inside the provider that produces it). A program is data-race-free
   iff no sequentially consistent execution reaches such a state. *)
From Coq Require Import List Arith Lia Bool.
Import ListNotations.
Require Import Sem2 Safe.

Definition about_to_read (p : prog) (s : state) (t : nat) (x : var) : Prop :=
  exists pc it, nth_error (s_thr s) t = Some (TRun pc (PWait (length (it_waits it)))) /\ item_at p t pc = Some it /\ In x (it_args it).
Definition about_to_write (p : prog) (s : state) (t : nat) (x : var) : Prop :=
  exists pc vs it, nth_error (s_thr s) t = Some (TRun pc (PInside vs)) /\ item_at p t pc = Some it /\ it_node it = fst x.
Definition race_state (p : prog) (s : state) : Prop :=
  exists t t' x, t <> t' /\ about_to_read p s t x /\ about_to_write p s t' x.

Lemma good_read_written p s x v : wf p -> Inv p s -> good_read p s x v ->
  forall t' pc vs it, nth_error (s_thr s) t' = Some (TRun pc (PInside vs)) -> item_at p t' pc = Some it -> it_node it = fst x -> False.
Proof.
  intros W I [(A & _)|(ws & Hin & _)] t' pc vs it Ht Hi Hn.
  - unfold isarg in A. destruct (in_dec Nat.eq_dec (fst x) (p_argnodes p)) as [i|]; try discriminate.
    apply (wf_noarg p W t' pc it Hi). rewrite Hn. exact i.
  - destruct (inv_exit_loc _ _ I _ _ Hin) as (t2 & j2 & it2 & Hi2 & Hn2 & P).
    assert (E : t' = t2 /\ pc = j2) by (eapply loc_unique; eauto; congruence).
    destruct E; subst t2 j2. unfold past in P. rewrite Ht in P. destruct P as [P|(_ & k & P)]; [lia|discriminate].
Qed.

Theorem race_free p ls s : wf p -> run p (init p) ls = Some s -> ~ race_state p s.
Proof.
  intros W R (t & t' & x & _ & (pc & it & Ht & Hi & Hx) & (pc' & vs & it' & Ht' & Hi' & Hn')).
  assert (I : Inv p s) by (eapply run_inv; eauto using inv_init).
  destruct (ready_reads p s t pc it W I Ht Hi) as (vals & _ & F).
  assert (G : exists v, good_read p s x v).
  { clear - Hx F. induction F as [|a v l l' Hav _ IH]; [destruct Hx|]. destruct Hx as [->|Hx]; eauto. }
  destruct G as (v & G). eapply good_read_written; eauto.
Qed.
