From Coq Require Import List Arith Lia Bool.
Import ListNotations.
Require Import Sem2 Safe.

(* ---------------- C06: which error the injector returns when providers fail and the caller never cancels ---------------- *)
Definition provider_err (s : state) (e : err) : Prop := exists n, e = EProv n /\ In (ExitErr n) (s_trace s).

Record FInv (s : state) : Prop := {
  f_nocancel : s_cext s = false;
  f_eg : forall e, s_egerr s = Some e -> provider_err s e;
  f_cint : s_cint s = true -> exists e, s_egerr s = Some e;
  f_main : forall e, nth_error (s_thr s) 0 = Some (TDone (Some e)) ->
             provider_err s e \/ (e = ECtxInt /\ exists e', s_egerr s = Some e' /\ provider_err s e') }.

Lemma perr_mono s s' e : (forall x, In x (s_trace s) -> In x (s_trace s')) -> provider_err s e -> provider_err s' e.
Proof. intros H (n & -> & Hin). exists n. auto. Qed.

Definition nocancel (l : label) : bool := match l with LCancel => false | _ => true end.

(* the status of thread 0 after an update at t *)
Lemma upd0 (l : list tstat) t x y : nth_error (upd l t x) 0 = Some y -> (t = 0 /\ y = x) \/ nth_error l 0 = Some y.
Proof. destruct l as [|a l]; destruct t; simpl; intros H; auto. inversion H; auto. Qed.

(* steps that keep every field but the thread table and the trace *)
Lemma finv_keep s s' t x : FInv s -> (forall e, x <> TDone (Some e)) ->
  s_thr s' = upd (s_thr s) t x -> s_egerr s' = s_egerr s -> s_cint s' = s_cint s -> s_cext s' = s_cext s ->
  (forall e, In e (s_trace s) -> In e (s_trace s')) -> FInv s'.
Proof.
  intros F Hx Ht Eg Ci Ce Tr. constructor.
  - rewrite Ce. apply (f_nocancel _ F).
  - intros e H. rewrite Eg in H. eapply perr_mono; eauto. apply (f_eg _ F); auto.
  - intros H. rewrite Ci in H. rewrite Eg. apply (f_cint _ F); auto.
  - intros e H. rewrite Ht in H. apply upd0 in H. destruct H as [(_ & E)|H]; [exfalso; eapply Hx; eauto|].
    destruct (f_main _ F e H) as [H1|(-> & e' & E' & P')].
    + left. eapply perr_mono; eauto.
    + right. split; auto. exists e'. rewrite Eg. split; auto. eapply perr_mono; eauto.
Qed.

Lemma finv_trace s s' : FInv s -> s_thr s' = s_thr s -> s_egerr s' = s_egerr s -> s_cint s' = s_cint s -> s_cext s' = s_cext s ->
  (forall e, In e (s_trace s) -> In e (s_trace s')) -> FInv s'.
Proof.
  intros F Ht Eg Ci Ce Tr. constructor.
  - rewrite Ce. apply (f_nocancel _ F).
  - intros e H. rewrite Eg in H. eapply perr_mono; eauto. apply (f_eg _ F); auto.
  - intros H. rewrite Ci in H. rewrite Eg. apply (f_cint _ F); auto.
  - intros e H. rewrite Ht in H. destruct (f_main _ F e H) as [H1|(-> & e' & E' & P')].
    + left. eapply perr_mono; eauto.
    + right. split; auto. exists e'. rewrite Eg. split; auto. eapply perr_mono; eauto.
Qed.

Lemma finv_fail s t e : FInv s -> (t = 0 -> provider_err s e \/ (e = ECtxInt /\ exists e', s_egerr s = Some e' /\ provider_err s e')) ->
  (t <> 0 -> provider_err s e \/ exists e', s_egerr s = Some e') -> FInv (fail s t e).
Proof.
  intros F H0 Hn. constructor; unfold fail; cbn [s_thr s_egerr s_cint s_cext s_trace].
  - apply (f_nocancel _ F).
  - intros e0 H. destruct (Nat.eqb t 0) eqn:E; [apply (f_eg _ F); auto|]. apply Nat.eqb_neq in E.
    destruct (s_egerr s) as [e1|] eqn:Eg; [inversion H; subst; apply (f_eg _ F); auto|]. inversion H; subst.
    destruct (Hn E) as [P|(e' & X)]; [auto|discriminate].
  - intros H. destruct (Nat.eqb t 0) eqn:E; [apply (f_cint _ F); auto|]. destruct (s_egerr s); eauto.
  - intros e0 H. apply upd0 in H. destruct H as [(-> & E)|H].
    + inversion E; subst. simpl. destruct (H0 eq_refl) as [P|(-> & e' & X & P)]; [left; auto | right; split; auto; eauto].
    + assert (Hold := f_main _ F e0 H). destruct (Nat.eqb t 0) eqn:E; [exact Hold|].
      destruct Hold as [P|(-> & e' & X & P)]; [left; auto|]. right. split; auto. exists e'. rewrite X. auto.
Qed.

Theorem finv_step p s l s' : FInv s -> nocancel l = true -> step p s l = Some s' -> FInv s'.
Proof.
  intros F Hl Hs. destruct l as [t|t|t|t|t|t|t|t|]; try discriminate; unfold step in Hs.
  - destruct (cur p s t) as [[[pc ph] it]|]; try discriminate. destruct ph; try discriminate.
    destruct (nth_error (it_waits it) k); try discriminate. destruct (mem v (s_closed s)); try discriminate. inv_some.
    eapply (finv_keep s _ t); eauto; try reflexivity. intros; discriminate.
  - destruct (cur p s t) as [[[pc ph] it]|]; try discriminate. destruct ph; try discriminate.
    destruct (nth_error (it_waits it) k); try discriminate. destruct (ctxaware p t); try discriminate.
    rewrite (f_nocancel _ F) in Hs. destruct (s_cint s) eqn:Ci; try discriminate. inv_some.
    destruct (f_cint _ F Ci) as (e' & Eg). apply finv_fail; auto.
    + intros _. right. split; auto. exists e'. split; auto. apply (f_eg _ F); auto.
    + intros _. right. eauto.
  - destruct (cur p s t) as [[[pc ph] it]|]; try discriminate. destruct ph; try discriminate.
    destruct (Nat.eqb k (length (it_waits it))); try discriminate. destruct (rdall p (s_store s) (it_args it)); try discriminate. inv_some.
    eapply (finv_keep s _ t); eauto; try reflexivity; [intros; discriminate | intros e H; right; auto].
  - destruct (cur p s t) as [[[pc ph] it]|]; try discriminate. destruct ph; try discriminate. inv_some.
    eapply (finv_keep s _ t); eauto; try reflexivity; [intros; discriminate | intros e H; right; auto].
  - destruct (cur p s t) as [[[pc ph] it]|]; try discriminate. destruct ph; try discriminate.
    destruct (it_fallible it); try discriminate. inv_some.
    set (s1 := {| s_thr := s_thr s; s_closed := s_closed s; s_store := s_store s; s_egerr := s_egerr s; s_cint := s_cint s;
                  s_cext := s_cext s; s_trace := ExitErr (it_node it) :: s_trace s |}).
    assert (F1 : FInv s1) by (apply (finv_trace s s1 F); try reflexivity; intros e H; right; exact H).
    assert (P : provider_err s1 (EProv (it_node it))) by (exists (it_node it); split; auto; left; auto).
    pose proof (finv_fail s1 t (EProv (it_node it)) F1 (fun _ => or_introl P) (fun _ => or_introl P)) as G.
    exact G.
  - destruct (cur p s t) as [[[pc ph] it]|]; try discriminate. destruct ph; try discriminate.
    destruct (nth_error (it_closes it) k); try discriminate. destruct (mem v (s_closed s)); try discriminate. inv_some.
    eapply (finv_keep s _ t); eauto; try reflexivity. intros; discriminate.
  - destruct (cur p s t) as [[[pc ph] it]|]; try discriminate. destruct ph; try discriminate.
    destruct (Nat.eqb k (length (it_closes it))); try discriminate. inv_some.
    eapply (finv_keep s _ t); eauto; try reflexivity. intros; discriminate.
  - destruct (nth_error (s_thr s) t) as [[pc [[|k]| |]|]|]; try discriminate.
    destruct (nth_error (p_threads p) t); try discriminate. destruct (Nat.eqb pc (length l)); try discriminate.
    destruct (Nat.eqb t 0) eqn:E0.
    + destruct (forallb isdone (tl (s_thr s))); try discriminate. inv_some. apply Nat.eqb_eq in E0. subst t.
      (* the injector returns the group's error *)
      constructor; unfold setthr; cbn [s_thr s_egerr s_cint s_cext s_trace].
      * apply (f_nocancel _ F).
      * apply (f_eg _ F).
      * apply (f_cint _ F).
      * intros e H. apply upd0 in H. destruct H as [(_ & E)|H]; [|apply (f_main _ F); auto].
        inversion E. destruct (p_reterr p); [|discriminate]. left. apply (f_eg _ F). auto.
    + inv_some. eapply (finv_keep s _ t); eauto; try reflexivity. intros; discriminate.
Qed.

Lemma finv_init p : FInv (init p).
Proof.
  constructor; unfold init; cbn [s_thr s_egerr s_cint s_cext s_trace]; try discriminate; auto.
  intros e H. destruct (p_threads p); simpl in H; discriminate.
Qed.

(* C06 (error identity), in the form that isolates the known finding: without caller cancellation, whenever the injector
   returns an error it is the error of a provider that really failed — or it is the internal context's cancellation error
   while the group holds the error of a provider that really failed (the main thread's ctx-aware wait, KF-C06-1). *)
Lemma finv_run p : forall ls s0 s1, FInv s0 -> forallb nocancel ls = true -> run p s0 ls = Some s1 -> FInv s1.
Proof.
  induction ls as [|l r IH]; intros s0 s1 F0 N0 R0; simpl in *; [inversion R0; subst; auto|].
  apply andb_true_iff in N0. destruct N0 as (N1 & N2). destruct (step p s0 l) as [s2|] eqn:E; try discriminate.
  apply (IH s2 s1); auto. eapply finv_step; eauto.
Qed.

Theorem C06_error_identity p : forall ls s e, forallb nocancel ls = true -> run p (init p) ls = Some s ->
  nth_error (s_thr s) 0 = Some (TDone (Some e)) ->
  provider_err s e \/ (e = ECtxInt /\ exists e', s_egerr s = Some e' /\ provider_err s e').
Proof.
  intros ls s e Hn R H. apply (f_main _ (finv_run p ls _ _ (finv_init p) Hn R)); auto.
Qed.
Print Assumptions C06_error_identity.

(* ---------------- C08, normal-return half: when the injector returns without error every goroutine has ended ---------------- *)
Definition joined (s : state) : Prop :=
  nth_error (s_thr s) 0 = Some (TDone None) -> forall t st, nth_error (s_thr s) t = Some st -> isdone st = true.

Lemma forallb_tl_done (l : list tstat) : forallb isdone (tl l) = true -> forall t st, t <> 0 -> nth_error l t = Some st -> isdone st = true.
Proof.
  intros H t st Ht E. destruct l as [|a l]; [destruct t; discriminate|]. destruct t; [congruence|]. simpl in *.
  rewrite forallb_forall in H. apply H. eapply nth_error_In; eauto.
Qed.

(* a thread that is done stays as it is: every step moves a running thread *)
Lemma step_moves_running p s l s' : step p s l = Some s' ->
  (exists t pc ph x, nth_error (s_thr s) t = Some (TRun pc ph) /\ s_thr s' = upd (s_thr s) t x /\
     (x = TDone None -> (t = 0 -> forallb isdone (tl (s_thr s)) = true))) \/ s_thr s' = s_thr s.
Proof.
  intros Hs. destruct l as [t|t|t|t|t|t|t|t|]; unfold step in Hs.
  - destruct (cur p s t) as [[[pc ph] it]|] eqn:C; try discriminate. apply cur_spec in C. destruct C as (Ct & _).
    destruct ph; try discriminate. destruct (nth_error (it_waits it) k); try discriminate. destruct (mem v (s_closed s)); try discriminate. inv_some.
    left. exists t, pc, (PWait k), (TRun pc (PWait (S k))). repeat split; auto. intros; discriminate.
  - destruct (cur p s t) as [[[pc ph] it]|] eqn:C; try discriminate. apply cur_spec in C. destruct C as (Ct & _).
    destruct ph; try discriminate. destruct (nth_error (it_waits it) k); try discriminate. destruct (ctxaware p t); try discriminate.
    destruct (s_cext s); [inv_some; left; exists t, pc, (PWait k), (TDone (Some ECtxExt)); repeat split; auto; intros; discriminate|].
    destruct (s_cint s); [inv_some; left; exists t, pc, (PWait k), (TDone (Some ECtxInt)); repeat split; auto; intros; discriminate | discriminate].
  - destruct (cur p s t) as [[[pc ph] it]|] eqn:C; try discriminate. apply cur_spec in C. destruct C as (Ct & _).
    destruct ph; try discriminate. destruct (Nat.eqb k (length (it_waits it))); try discriminate. destruct (rdall p (s_store s) (it_args it)) as [vs|]; try discriminate. inv_some.
    left. exists t, pc, (PWait k), (TRun pc (PInside vs)). repeat split; auto. intros; discriminate.
  - destruct (cur p s t) as [[[pc ph] it]|] eqn:C; try discriminate. apply cur_spec in C. destruct C as (Ct & _).
    destruct ph; try discriminate. inv_some. left. exists t, pc, (PInside args), (TRun pc (PClose 0)). repeat split; auto. intros; discriminate.
  - destruct (cur p s t) as [[[pc ph] it]|] eqn:C; try discriminate. apply cur_spec in C. destruct C as (Ct & _).
    destruct ph; try discriminate. destruct (it_fallible it); try discriminate. inv_some.
    left. exists t, pc, (PInside args), (TDone (Some (EProv (it_node it)))). repeat split; auto. intros; discriminate.
  - destruct (cur p s t) as [[[pc ph] it]|] eqn:C; try discriminate. apply cur_spec in C. destruct C as (Ct & _).
    destruct ph; try discriminate. destruct (nth_error (it_closes it) k); try discriminate. destruct (mem v (s_closed s)); try discriminate. inv_some.
    left. exists t, pc, (PClose k), (TRun pc (PClose (S k))). repeat split; auto. intros; discriminate.
  - destruct (cur p s t) as [[[pc ph] it]|] eqn:C; try discriminate. apply cur_spec in C. destruct C as (Ct & _).
    destruct ph; try discriminate. destruct (Nat.eqb k (length (it_closes it))); try discriminate. inv_some.
    left. exists t, pc, (PClose k), (TRun (S pc) (PWait 0)). repeat split; auto. intros; discriminate.
  - destruct (nth_error (s_thr s) t) as [[pc [[|k]| |]|]|] eqn:Ct; try discriminate.
    destruct (nth_error (p_threads p) t); try discriminate. destruct (Nat.eqb pc (length l)); try discriminate.
    destruct (Nat.eqb t 0) eqn:E0.
    + destruct (forallb isdone (tl (s_thr s))) eqn:Fa; try discriminate. inv_some.
      left. exists t, pc, (PWait 0), (TDone (if p_reterr p then s_egerr s else None)). repeat split; auto.
    + inv_some. left. exists t, pc, (PWait 0), (TDone None). repeat split; auto. intros _ H. apply Nat.eqb_neq in E0. contradiction.
  - inv_some. right. reflexivity.
Qed.

Theorem joined_step p s l s' : joined s -> step p s l = Some s' -> joined s'.
Proof.
  intros J Hs. destruct (step_moves_running p s l s' Hs) as [(t & pc & ph & x & Ct & Ht & Hx)|E]; [|unfold joined; rewrite E; auto].
  assert (Hlt : t < length (s_thr s)) by (eapply nth_error_Some_lt; eauto).
  unfold joined. rewrite Ht. intros H0 t0 st H.
  destruct (Nat.eq_dec t 0) as [->|Hne].
  - rewrite nth_error_upd_eq in H0 by auto. inversion H0 as [Ex]. 
    destruct (Nat.eq_dec t0 0) as [->|Hne0]; [rewrite nth_error_upd_eq in H by auto; inversion H; subst; auto|].
    rewrite nth_error_upd_neq in H by auto. eapply forallb_tl_done; eauto.
  - rewrite nth_error_upd_neq in H0 by auto.
    destruct (Nat.eq_dec t t0) as [<-|Hne0]; [|rewrite nth_error_upd_neq in H by auto; eapply J; eauto].
    (* thread t was running while main had already returned normally: impossible *)
    pose proof (J H0 t _ Ct) as D. discriminate.
Qed.
Print Assumptions joined_step.
