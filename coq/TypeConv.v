(* Model of internal/migrate/typeconv.go: AddImport's alias allocation (C14).
   imports : path -> alias,  usedNames : alias -> path,  nameCounters : base name -> counter. *)
From Coq Require Import String List Arith Lia Bool FinFun.
Import ListNotations.
Require Import Dec.
Open Scope string_scope.

Fixpoint lookup (k : string) (l : list (string * string)) : option string :=
  match l with [] => None | (a, b) :: r => if String.eqb k a then Some b else lookup k r end.
Fixpoint lookupn (k : string) (l : list (string * nat)) : nat :=
  match l with [] => 0 | (a, b) :: r => if String.eqb k a then b else lookupn k r end.

Record tc := { imports : list (string * string); used : list (string * string); counters : list (string * nat) }.
Definition tc0 : tc := {| imports := []; used := []; counters := [] |}.

Definition cand (base : string) (k : nat) : string := base ++ "_" ++ dec k.

(* the collision loop: counter++ until the candidate is unused *)
Fixpoint find_free (fuel : nat) (base : string) (k : nat) (u : list (string * string)) : option (nat * string) :=
  match fuel with
  | 0 => None
  | S fuel => let k' := S k in
              match lookup (cand base k') u with
              | None => Some (k', cand base k')
              | Some _ => find_free fuel base k' u
              end
  end.

Definition add_import (st : tc) (path desired : string) : option (string * tc) :=
  match lookup path (imports st) with
  | Some n => Some (n, st)
  | None =>
      match lookup desired (used st) with
      | Some p' =>
          if String.eqb p' path then Some (desired, {| imports := (path, desired) :: imports st; used := (desired, path) :: used st; counters := counters st |})
          else match find_free (S (length (used st))) desired (lookupn desired (counters st)) (used st) with
               | Some (k, n) => Some (n, {| imports := (path, n) :: imports st; used := (n, path) :: used st; counters := (desired, k) :: counters st |})
               | None => None
               end
      | None => Some (desired, {| imports := (path, desired) :: imports st; used := (desired, path) :: used st; counters := counters st |})
      end
  end.

(* invariant: both maps are functional and mutually consistent *)
Record tcinv (st : tc) : Prop := {
  ti_paths : NoDup (map fst (imports st));
  ti_names : NoDup (map fst (used st));
  ti_fwd : forall p n, In (p, n) (imports st) -> In (n, p) (used st);
  ti_bwd : forall n p, In (n, p) (used st) -> In (p, n) (imports st) }.

Lemma lookup_in k l v : lookup k l = Some v -> In (k, v) l.
Proof. induction l as [|[a b] r IH]; simpl; [discriminate|]. destruct (String.eqb_spec k a) as [->|]; [intros H; inversion H; auto | auto]. Qed.
Lemma lookup_none k l : lookup k l = None -> ~ In k (map fst l).
Proof. induction l as [|[a b] r IH]; simpl; [tauto|]. destruct (String.eqb_spec k a) as [->|N]; [discriminate|]. intros H [E|E]; [congruence | apply IH; auto]. Qed.
Lemma in_lookup k v l : NoDup (map fst l) -> In (k, v) l -> lookup k l = Some v.
Proof.
  induction l as [|[a b] r IH]; simpl; intros N H; [destruct H|]. inversion N; subst.
  destruct H as [H|H]; [inversion H; subst; rewrite String.eqb_refl; reflexivity|].
  destruct (String.eqb_spec k a) as [->|]; [exfalso; apply H2; apply (in_map fst) in H; exact H | auto].
Qed.
Lemma find_free_spec fuel : forall base k u k' n, find_free fuel base k u = Some (k', n) -> n = cand base k' /\ lookup n u = None /\ k < k'.
Proof.
  induction fuel as [|fuel IH]; intros base k u k' n H; simpl in H; [discriminate|].
  destruct (lookup (cand base (S k)) u) eqn:E.
  - destruct (IH _ _ _ _ _ H) as (A & B & C). repeat split; auto. lia.
  - inversion H; subst. repeat split; auto.
Qed.

Theorem add_import_inv st path desired n st' : tcinv st -> add_import st path desired = Some (n, st') ->
  tcinv st' /\ In (path, n) (imports st') /\ (forall p a, In (p, a) (imports st) -> In (p, a) (imports st')).
Proof.
  intros I H. unfold add_import in H.
  destruct (lookup path (imports st)) as [n0|] eqn:Ep.
  - inversion H; subst. split; [exact I|]. split; [apply lookup_in; auto | auto].
  - assert (Np : ~ In path (map fst (imports st))) by (apply lookup_none; auto).
    assert (fresh : forall nm, lookup nm (used st) = None ->
              tcinv {| imports := (path, nm) :: imports st; used := (nm, path) :: used st; counters := counters st |}).
    { intros nm En. constructor; simpl.
      - constructor; auto. apply (ti_paths _ I).
      - constructor; [apply lookup_none; auto | apply (ti_names _ I)].
      - intros p a [E|E]; [inversion E; subst; left; reflexivity | right; apply (ti_fwd _ I); auto].
      - intros a p [E|E]; [inversion E; subst; left; reflexivity | right; apply (ti_bwd _ I); auto]. }
    destruct (lookup desired (used st)) as [p'|] eqn:Ed.
    + destruct (String.eqb_spec p' path) as [->|Hne].
      * (* the desired name is registered for this very path: impossible, the path is not imported *)
        exfalso. apply Np. apply lookup_in in Ed. apply (ti_bwd _ I) in Ed. apply (in_map fst) in Ed. exact Ed.
      * destruct (find_free (S (length (used st))) desired (lookupn desired (counters st)) (used st)) as [[k nm]|] eqn:Ef; [|discriminate].
        inversion H; subst. destruct (find_free_spec _ _ _ _ _ _ Ef) as (_ & En & _).
        pose proof (fresh n En) as F. split.
        { destruct F as [F1 F2 F3 F4]. constructor; simpl in *; auto. }
        split; [left; reflexivity | intros; right; auto].
    + inversion H; subst. split; [apply fresh; auto|]. split; [left; reflexivity | intros; right; auto].
Qed.

(* request histories *)
Fixpoint add_all (st : tc) (reqs : list (string * string)) : option (list string * tc) :=
  match reqs with
  | [] => Some ([], st)
  | (p, d) :: r => match add_import st p d with
                   | Some (n, st1) => match add_all st1 r with Some (ns, st2) => Some (n :: ns, st2) | None => None end
                   | None => None end
  end.

Lemma tc0_inv : tcinv tc0. Proof. constructor; simpl; try constructor; intros; contradiction. Qed.

Theorem add_all_inv : forall reqs st outs st', tcinv st -> add_all st reqs = Some (outs, st') ->
  tcinv st' /\ (forall p a, In (p, a) (imports st) -> In (p, a) (imports st')).
Proof.
  induction reqs as [|[p d] r IH]; intros st outs st' I H; simpl in H.
  - inversion H; subst. auto.
  - destruct (add_import st p d) as [[n st1]|] eqn:E; [|discriminate]. destruct (add_all st1 r) as [[ns st2]|] eqn:E2; [|discriminate].
    inversion H; subst. destruct (add_import_inv _ _ _ _ _ I E) as (I1 & _ & M1). destruct (IH _ _ _ I1 E2) as (I2 & M2). split; auto.
Qed.

(* alias -> path is injective: two different paths never share an alias *)
Theorem alias_injective st : tcinv st -> forall p p' a, In (p, a) (imports st) -> In (p', a) (imports st) -> p = p'.
Proof.
  intros I p p' a H H'. apply (ti_fwd _ I) in H. apply (ti_fwd _ I) in H'.
  pose proof (in_lookup _ _ _ (ti_names _ I) H) as L. pose proof (in_lookup _ _ _ (ti_names _ I) H') as L'. congruence.
Qed.
(* path -> alias is a function *)
Theorem alias_functional st : tcinv st -> forall p a a', In (p, a) (imports st) -> In (p, a') (imports st) -> a = a'.
Proof.
  intros I p a a' H H'. pose proof (in_lookup _ _ _ (ti_paths _ I) H) as L. pose proof (in_lookup _ _ _ (ti_paths _ I) H') as L'. congruence.
Qed.

Fixpoint strs_eqb (a b : list string) : bool :=
  match a, b with [], [] => true | x :: a', y :: b' => String.eqb x y && strs_eqb a' b' | _, _ => false end.
Definition tcv_mismatches (cs : list (nat * (list (string * string) * list string))) : list nat :=
  flat_map (fun c => match add_all tc0 (fst (snd c)) with Some (o, _) => if strs_eqb o (snd (snd c)) then [] else [fst c] | None => [fst c] end) cs.

(* the collision loop always finds a free candidate within |usedNames| + 1 attempts *)
Lemma cand_inj base a b : cand base a = cand base b -> a = b.
Proof. unfold cand. intros H. apply append_inj_r in H. apply append_inj_r in H. apply dec_inj. exact H. Qed.
Lemma find_free_total : forall fuel base k u,
  (exists j, k < j <= k + fuel /\ lookup (cand base j) u = None) -> exists r, find_free fuel base k u = Some r.
Proof.
  induction fuel as [|fuel IH]; intros base k u (j & Hj & Hn); [lia|].
  simpl. destruct (lookup (cand base (S k)) u) eqn:E; [|eauto].
  apply IH. exists j. split; [|exact Hn]. assert (j <> S k) by (intro; subst; congruence). lia.
Qed.
Lemma lookup_some_in k l : lookup k l <> None -> In k (map fst l).
Proof. induction l as [|[a b] r IH]; simpl; [congruence|]. destruct (String.eqb_spec k a) as [->|]; [auto | intros H; right; auto]. Qed.
Theorem find_free_enough base k u : exists r, find_free (S (length u)) base k u = Some r.
Proof.
  apply find_free_total.
  destruct (existsb (fun j => match lookup (cand base j) u with None => true | _ => false end) (seq (S k) (S (length u)))) eqn:E.
  - apply existsb_exists in E. destruct E as (j & Hin & Hj). apply in_seq in Hin. exists j. split; [lia|]. destruct (lookup (cand base j) u); [discriminate|reflexivity].
  - exfalso.
    assert (Hall : forall j, In j (seq (S k) (S (length u))) -> In (cand base j) (map fst u)).
    { intros j Hj. apply lookup_some_in. intro N.
      assert (existsb (fun j => match lookup (cand base j) u with None => true | _ => false end) (seq (S k) (S (length u))) = true); [|congruence].
      apply existsb_exists. exists j. split; auto. rewrite N. reflexivity. }
    assert (ND : NoDup (map (cand base) (seq (S k) (S (length u))))).
    { apply FinFun.Injective_map_NoDup; [intros a b; apply cand_inj | apply seq_NoDup]. }
    assert (Hincl : incl (map (cand base) (seq (S k) (S (length u)))) (map fst u)).
    { intros x Hx. apply in_map_iff in Hx. destruct Hx as (j & <- & Hj). auto. }
    pose proof (NoDup_incl_length ND Hincl) as L. rewrite !map_length, seq_length in L. lia.
Qed.
Theorem add_import_total st path desired : exists r, add_import st path desired = Some r.
Proof.
  unfold add_import. destruct (lookup path (imports st)); [eauto|]. destruct (lookup desired (used st)); [|eauto].
  destruct (String.eqb s path); [eauto|].
  destruct (find_free_enough desired (lookupn desired (counters st)) (used st)) as ((k & n) & E). rewrite E. eauto.
Qed.

(* ---------------- reserved names (package-level identifiers of the source package, and "kessoku") ---------------- *)
(* NewTypeConverter marks these names as used before any import is added. They are modelled as pre-registered imports
   of sentinel paths (a path no real import has), so that every theorem about tcinv applies unchanged. *)
Definition sentinel (n : string) : string := String (Ascii.ascii_of_nat 0) n.
Definition tc_reserved (rs : list string) : tc :=
  {| imports := map (fun n => (sentinel n, n)) rs; used := map (fun n => (n, sentinel n)) rs; counters := [] |}.

Lemma sentinel_inj a b : sentinel a = sentinel b -> a = b.
Proof. unfold sentinel. intros H. inversion H. reflexivity. Qed.
Lemma tc_reserved_inv rs : NoDup rs -> tcinv (tc_reserved rs).
Proof.
  intros ND. constructor; simpl.
  - rewrite map_map. simpl. induction ND as [|x l Hn ND IH]; simpl; constructor; auto.
    intro H. apply in_map_iff in H. destruct H as (y & E & Hy). apply sentinel_inj in E. subst. contradiction.
  - rewrite map_map. simpl. rewrite map_id. exact ND.
  - intros p n H. apply in_map_iff in H. destruct H as (x & E & Hx). inversion E; subst. apply in_map_iff. exists n. auto.
  - intros n p H. apply in_map_iff in H. destruct H as (x & E & Hx). inversion E; subst. apply in_map_iff. exists n. auto.
Qed.

Lemma add_all_outs : forall reqs st outs st', tcinv st -> add_all st reqs = Some (outs, st') ->
  Forall2 (fun (r : string * string) a => In (fst r, a) (imports st')) reqs outs.
Proof.
  induction reqs as [|[p d] r IH]; intros st outs st' I H; simpl in H.
  - inversion H; subst. constructor.
  - destruct (add_import st p d) as [[n st1]|] eqn:E; [|discriminate]. destruct (add_all st1 r) as [[ns st2]|] eqn:E2; [|discriminate].
    inversion H; subst. destruct (add_import_inv _ _ _ _ _ I E) as (I1 & In1 & _).
    destruct (add_all_inv r st1 ns st' I1 E2) as (_ & M2). constructor; [simpl; apply M2; exact In1 | eapply IH; eauto].
Qed.

(* no import is ever given a reserved name, and the invariants (hence consistency of aliases) hold from such a start *)
Theorem reserved_never_allocated rs reqs outs st : NoDup rs -> add_all (tc_reserved rs) reqs = Some (outs, st) ->
  (forall p d n, In (p, d) reqs -> p <> sentinel n) ->
  tcinv st /\ forall a, In a outs -> ~ In a rs.
Proof.
  intros ND H NS. pose proof (tc_reserved_inv rs ND) as I0. destruct (add_all_inv reqs _ outs st I0 H) as (I & M). split; [exact I|].
  intros a Ha Hr. pose proof (add_all_outs reqs _ outs st I0 H) as F.
  assert (X : exists p d, In (p, d) reqs /\ In (p, a) (imports st)).
  { clear - F Ha. induction F as [|[p d] y l l' Hy F IH]; [destruct Ha|]. destruct Ha as [<-|Ha]; [exists p, d; split; [left; auto|exact Hy]|].
    destruct (IH Ha) as (p' & d' & Hin & Hi). exists p', d'. split; [right; exact Hin|exact Hi]. }
  destruct X as (p & d & Hin & Hi).
  assert (Hs : In (sentinel a, a) (imports st)) by (apply M; simpl; apply in_map_iff; exists a; auto).
  pose proof (alias_injective st I p (sentinel a) a Hi Hs) as E. exact (NS p d a Hin E).
Qed.

(* correspondence with the real TypeConverter created for a package whose scope declares the reserved names *)
Definition tcv_mismatches_reserved (cs : list (nat * (list string * list (string * string) * list string))) : list nat :=
  flat_map (fun c => match c with (i, (rs, reqs, obs)) =>
                       match add_all (tc_reserved rs) reqs with Some (o, _) => if strs_eqb o obs then [] else [i] | None => [i] end end) cs.
