(* Agent registry facts (C16), over tables regenerated from internal/llmsetup/*.go, llmsetup.go's kong tags and README.md. *)
From Coq Require Import String List Bool Arith.
Import ListNotations.
Require Import Agents_gen.
Open Scope string_scope.

Definition mems (x : string) (l : list string) : bool := existsb (String.eqb x) l.
Fixpoint nodups (l : list string) : bool := match l with [] => true | x :: r => negb (mems x r) && nodups r end.
Definition same_set (a b : list string) : bool := forallb (fun x => mems x b) a && forallb (fun x => mems x a) b && Nat.eqb (length a) (length b).
Lemma mems_true x l : mems x l = true <-> In x l.
Proof. unfold mems. rewrite existsb_exists. split; [intros (y & H & E); apply String.eqb_eq in E; subst; auto | intros H; exists x; split; auto; apply String.eqb_refl]. Qed.
Lemma nodups_sound l : nodups l = true -> NoDup l.
Proof. induction l as [|x r IH]; simpl; intros H; [constructor|]. apply andb_true_iff in H. destruct H as (A & B). constructor; auto.
  intro Hin. apply mems_true in Hin. rewrite Hin in A. discriminate. Qed.
Lemma same_set_sound a b : same_set a b = true -> (forall x, In x a <-> In x b) /\ length a = length b.
Proof.
  unfold same_set. intros H. apply andb_true_iff in H. destruct H as (H & L). apply andb_true_iff in H. destruct H as (A & B).
  rewrite forallb_forall in A, B. apply Nat.eqb_eq in L. split; auto. intros x. split; intros Hx; apply mems_true; auto.
Qed.

Definition registry_names : list string := map a_name registry.
Definition kong_names : list string := filter (fun n => negb (String.eqb n "")) (map fst kong_cmds).
Definition readme_names : list string := map snd readme_agents.
Definition type_of_name (n : string) : option string := option_map a_type (find (fun a => String.eqb (a_name a) n) registry).
(* each visible subcommand is bound to the agent type whose Name() is the subcommand's name *)
Definition kong_bound_ok : bool :=
  forallb (fun c => String.eqb (fst c) "" || match type_of_name (fst c) with Some t => String.eqb t (snd c) | None => false end) kong_cmds.
(* README default paths = the agent's ProjectSubPath/UserSubPath *)
Definition display_of (n : string) : option string := option_map fst (find (fun p => String.eqb (snd p) n) readme_agents).
Definition readme_paths_ok : bool :=
  forallb (fun a => match display_of (a_name a) with
                    | Some d => match find (fun p => String.eqb (fst p) d) readme_paths with
                                | Some (_, (pp, up)) => String.eqb pp (a_proj a ++ "/") && String.eqb up ("~/" ++ a_user a ++ "/")
                                | None => false end
                    | None => false end) registry.
Definition one_tree_ok : bool :=
  forallb (fun a => String.eqb (a_src a) "skills/kessoku-di" && String.eqb (a_skill a) "kessoku-di") registry
  && negb (Nat.eqb (length embedded_files) 0)
  && forallb (fun f => String.eqb (substring 0 18 f) "skills/kessoku-di/") embedded_files.
Definition registry_ok : bool :=
  nodups registry_names && same_set registry_names kong_names && same_set registry_names readme_names && kong_bound_ok && readme_paths_ok && one_tree_ok
  && Nat.eqb (length readme_paths) (length registry).

(* installation directory: custom path > user directory under $HOME > project directory under the current directory *)
Definition is_abs (p : string) : bool := String.eqb (substring 0 1 p) "/".
Definition join (a b : string) : string := a ++ "/" ++ b.
Definition base_dir (a : agent) (custom : string) (user : bool) (home cwd : string) : string :=
  if negb (String.eqb custom "") then (if is_abs custom then custom else join cwd custom)
  else if user then join home (a_user a) else join cwd (a_proj a).
Definition install_dir (a : agent) (custom : string) (user : bool) (home cwd : string) : string := join (base_dir a custom user home cwd) (a_skill a).
Definition find_agent (n : string) : option agent := find (fun a => String.eqb (a_name a) n) registry.
Definition dir_mismatches (cs : list (nat * (string * string * bool * string * string * string))) : list nat :=
  flat_map (fun c => let '(n, custom, user, home, cwd, observed) := snd c in
                     match find_agent n with
                     | Some a => if String.eqb (install_dir a custom user home cwd) observed then [] else [fst c]
                     | None => [fst c] end) cs.
