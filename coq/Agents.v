(* Agent registry facts (C16), over tables regenerated from internal/llmsetup/*.go, llmsetup.go's kong tags and README.md. *)
From Coq Require Import String List Bool Arith Lia.
Import ListNotations.
Require Import Agents_gen.
Open Scope string_scope.

Definition mems (x : string) (l : list string) : bool := existsb (String.eqb x) l.
Fixpoint nodups (l : list string) : bool := match l with [] => true | x :: r => negb (mems x r) && nodups r end.
Definition same_set (a b : list string) : bool := forallb (fun x => mems x b) a && forallb (fun x => mems x a) b && Nat.eqb (length a) (length b).
Lemma mems_true x l : mems x l = true <-> In x l.
Proof. unfold mems. rewrite existsb_exists. split; [intros (y & H & E); apply String.eqb_eq in E; subst; auto | intros H; exists x; split; auto; apply String.eqb_refl]. Qed.
Lemma nodups_sound l : nodups l = true -> NoDup l.
Proof. induction l as [|x r IH]; simpl; intros H; [constructor|]. apply andb_true_iff in H. destruct H as (A & B). constructor; auto.
  intro Hin. apply mems_true in Hin. rewrite Hin in A. discriminate. Qed.
Lemma same_set_sound a b : same_set a b = true -> (forall x, In x a <-> In x b) /\ length a = length b.
Proof.
  unfold same_set. intros H. apply andb_true_iff in H. destruct H as (H & L). apply andb_true_iff in H. destruct H as (A & B).
  rewrite forallb_forall in A, B. apply Nat.eqb_eq in L. split; auto. intros x. split; intros Hx; apply mems_true; auto.
Qed.

Definition registry_names : list string := map a_name registry.
Definition kong_names : list string := filter (fun n => negb (String.eqb n "")) (map fst kong_cmds).
Definition readme_names : list string := map snd readme_agents.
Definition type_of_name (n : string) : option string := option_map a_type (find (fun a => String.eqb (a_name a) n) registry).
(* each visible subcommand is bound to the agent type whose Name() is the subcommand's name *)
Definition kong_bound_ok : bool :=
  forallb (fun c => String.eqb (fst c) "" || match type_of_name (fst c) with Some t => String.eqb t (snd c) | None => false end) kong_cmds.
(* README default paths = the agent's ProjectSubPath/UserSubPath *)
Definition display_of (n : string) : option string := option_map fst (find (fun p => String.eqb (snd p) n) readme_agents).
Definition readme_paths_ok : bool :=
  forallb (fun a => match display_of (a_name a) with
                    | Some d => match find (fun p => String.eqb (fst p) d) readme_paths with
                                | Some (_, (pp, up)) => String.eqb pp (a_proj a ++ "/") && String.eqb up ("~/" ++ a_user a ++ "/")
                                | None => false end
                    | None => false end) registry.
Definition one_tree_ok : bool :=
  forallb (fun a => String.eqb (a_src a) "skills/kessoku-di" && String.eqb (a_skill a) "kessoku-di") registry
  && negb (Nat.eqb (length embedded_files) 0)
  && forallb (fun f => String.eqb (substring 0 18 f) "skills/kessoku-di/") embedded_files.
Definition registry_ok : bool :=
  nodups registry_names && same_set registry_names kong_names && same_set registry_names readme_names && kong_bound_ok && readme_paths_ok && one_tree_ok
  && Nat.eqb (length readme_paths) (length registry).

(* installation directory: custom path > user directory under $HOME > project directory under the current directory *)
Definition is_abs (p : string) : bool := String.eqb (substring 0 1 p) "/".
Definition join (a b : string) : string := a ++ "/" ++ b.
Definition base_dir (a : agent) (custom : string) (user : bool) (home cwd : string) : string :=
  if negb (String.eqb custom "") then (if is_abs custom then custom else join cwd custom)
  else if user then join home (a_user a) else join cwd (a_proj a).
Definition install_dir (a : agent) (custom : string) (user : bool) (home cwd : string) : string := join (base_dir a custom user home cwd) (a_skill a).
Definition find_agent (n : string) : option agent := find (fun a => String.eqb (a_name a) n) registry.
Definition dir_mismatches (cs : list (nat * (string * string * bool * string * string * string))) : list nat :=
  flat_map (fun c => let '(n, custom, user, home, cwd, observed) := snd c in
                     match find_agent n with
                     | Some a => if String.eqb (install_dir a custom user home cwd) observed then [] else [fst c]
                     | None => [fst c] end) cs.

(* ------------------------------------------------------------------ the directory a path names to the operating system
   Path resolution over the symbolic links of the tree: components left to right, a link replaced by its target,
   ".." applied to the directory reached so far (i.e. AFTER links are followed - filepath.Clean would apply it textually).
   The model names the documented directory (install_dir, plain concatenation); the CLI reports the physical path since
   1f881e5: the correspondence compares the two after resolving both. *)
From Coq Require Import Ascii.
Fixpoint split_slash_aux (s : string) (acc : string) : list string :=
  match s with
  | EmptyString => [acc]
  | String c r => if Ascii.eqb c "/"%char then acc :: split_slash_aux r "" else split_slash_aux r (acc ++ String c "")
  end.
Definition components (p : string) : list string :=
  filter (fun c => negb (String.eqb c "") && negb (String.eqb c ".")) (split_slash_aux p "").
(* a directory is kept as the list of its components, innermost first *)
Definition render (cur : list string) : string := fold_left (fun acc c => acc ++ "/" ++ c) (rev cur) "".
Fixpoint lookup (k : string) (l : list (string * string)) : option string :=
  match l with [] => None | (k', v) :: r => if String.eqb k k' then Some v else lookup k r end.
Fixpoint resolve (fuel : nat) (links : list (string * string)) (cur : list string) (todo : list string) : option (list string) :=
  match fuel with
  | 0 => None
  | S fuel =>
      match todo with
      | [] => Some cur
      | c :: r =>
          if String.eqb c ".." then resolve fuel links (tl cur) r
          else match lookup (render (c :: cur)) links with
               | Some t => if is_abs t then resolve fuel links [] (components t ++ r) else resolve fuel links cur (components t ++ r)
               | None => resolve fuel links (c :: cur) r
               end
      end
  end.
Definition physical (links : list (string * string)) (p : string) : option string :=
  option_map render (resolve (200 + 40 * length links) links [] (components p)).

(* without links and without "..", a path names itself (up to empty and "." components) *)
Lemma resolve_plain : forall todo fuel cur, length todo < fuel -> (forall c, In c todo -> c <> "..") ->
  resolve fuel [] cur todo = Some ((rev todo ++ cur)%list).
Proof.
  induction todo as [|c r IH]; intros fuel cur Hf Hn; destruct fuel as [|fuel]; simpl in *; try (exfalso; lia); auto.
  destruct (String.eqb_spec c "..") as [E|_]; [exfalso; apply (Hn c); auto|].
  rewrite IH; [|lia|intros d Hd; apply Hn; auto]. rewrite <- app_assoc. reflexivity.
Qed.
(* ".." leaves the directory reached so far, whatever name led there *)
Lemma resolve_dotdot : forall fuel links cur r, resolve (S fuel) links cur (".." :: r) = resolve fuel links (tl cur) r.
Proof. reflexivity. Qed.

(* the correspondence's comparison: the documented directory and the reported one name the same directory *)
Definition dir_mismatches_phys (cs : list (nat * (string * string * bool * string * string * string * list (string * string)))) : list nat :=
  flat_map (fun c => let '(n, custom, user, home, cwd, observed, links) := snd c in
                     match find_agent n with
                     | Some a => match physical links (install_dir a custom user home cwd), physical links observed with
                                 | Some x, Some y => if String.eqb x y then [] else [fst c]
                                 | _, _ => [fst c] end
                     | None => [fst c] end) cs.

Example physical_example :
  physical [("/w/proj/lnk", "/w/else/deep/dir"); ("/w/else/abs", "../real")] "/w/proj/lnk/../viaparent/./kessoku-di" = Some "/w/else/deep/viaparent/kessoku-di" /\
  physical [("/w/proj/lnk", "/w/else/deep/dir"); ("/w/else/abs", "../real")] "/w/else/abs/x" = Some "/w/real/x".
Proof. vm_compute. split; reflexivity. Qed.
