From Coq Require Import List Arith Lia Bool NArith.
Import ListNotations.

(* NewGraph's breadth-first expansion, over function-typed maps *)
Inductive nodek := NArg (t : N) | NProv (pi : nat).

Section BFS.
Variable requires : nat -> list N.                 (* provider index -> parameter types *)
Variable pm : N -> option (nat * nat).             (* type -> (provider, result group) : fnProviderMap *)
Variable nprovides : nat -> nat.                   (* provider index -> number of result groups *)
Hypothesis pm_ok : forall t pi gi, pm t = Some (pi, gi) -> gi < nprovides pi.

Definition fupd {A} (f : nat -> A) (k : nat) (v : A) : nat -> A := fun m => if Nat.eqb m k then v else f m.
Lemma fupd_eq {A} (f : nat -> A) k v : fupd f k v k = v. Proof. unfold fupd. rewrite Nat.eqb_refl. auto. Qed.
Lemma fupd_neq {A} (f : nat -> A) k v m : m <> k -> fupd f k v m = f m. Proof. unfold fupd. intros H. apply Nat.eqb_neq in H. rewrite H. auto. Qed.

Fixpoint assocn {A} (k : nat) (l : list (nat * A)) : option A :=
  match l with [] => None | (k', v) :: r => if Nat.eqb k k' then Some v else assocn k r end.
Fixpoint assocN {A} (k : N) (l : list (N * A)) : option A :=
  match l with [] => None | (k', v) :: r => if N.eqb k k' then Some v else assocN k r end.
Definition memn (x : nat) (l : list nat) : bool := existsb (Nat.eqb x) l.
Lemma nth_error_Some_lt {A} (l : list A) i a : nth_error l i = Some a -> i < length l.
Proof. intros H. apply nth_error_Some. congruence. Qed.

Record bst := {
  nodes : list nodek;
  red : nat -> list (nat * nat);       (* reverseEdges, with the producer's result index *)
  out : nat -> list (nat * nat);       (* edges: (consumer, parameter index) *)
  pn : list (nat * nat);               (* providerNodeMap *)
  an : list (N * nat);                 (* argNodeMap *)
  queue : list nat }.

(* resolve one required type: find or create the producing node *)
Definition resolve (b : bst) (t : N) : bst * nat * nat :=
  match pm t with
  | Some (pi, gi) =>
      match assocn pi (pn b) with
      | Some n2 => (b, n2, gi)
      | None => let n2 := length (nodes b) in
                ({| nodes := nodes b ++ [NProv pi]; red := red b; out := out b; pn := pn b ++ [(pi, n2)]; an := an b;
                    queue := queue b ++ [n2] |}, n2, gi)
      end
  | None =>
      match assocN t (an b) with
      | Some n2 => (b, n2, 0)
      | None => let n2 := length (nodes b) in
                ({| nodes := nodes b ++ [NArg t]; red := red b; out := out b; pn := pn b; an := an b ++ [(t, n2)];
                    queue := queue b ++ [n2] |}, n2, 0)
      end
  end.
Definition add_edge (b : bst) (n2 sx n1 i : nat) : bst :=
  {| nodes := nodes b; red := fupd (red b) n1 (red b n1 ++ [(n2, sx)]); out := fupd (out b) n2 (out b n2 ++ [(n1, i)]);
     pn := pn b; an := an b; queue := queue b |}.
Fixpoint do_reqs (b : bst) (n1 i : nat) (ts : list N) : bst :=
  match ts with
  | [] => b
  | t :: r => let '(b', n2, sx) := resolve b t in do_reqs (add_edge b' n2 sx n1 i) n1 (S i) r
  end.

Fixpoint loop (fuel : nat) (b : bst) (vis : list nat) : option (bst * list nat) :=
  match fuel with
  | 0 => None
  | S fuel =>
      match queue b with
      | [] => Some (b, vis)
      | n1 :: q =>
          let b := {| nodes := nodes b; red := red b; out := out b; pn := pn b; an := an b; queue := q |} in
          if memn n1 vis then loop fuel b vis
          else match nth_error (nodes b) n1 with
               | Some (NProv pi) => loop fuel (do_reqs b n1 0 (requires pi)) (n1 :: vis)
               | _ => loop fuel b (n1 :: vis)
               end
      end
  end.

Definition nreq_of (b : bst) (n : nat) : nat :=
  match nth_error (nodes b) n with Some (NProv pi) => length (requires pi) | _ => 0 end.

(* ---- invariant; `cur` = the node whose parameters are being resolved (with how many are done) ---- *)
Record inv (b : bst) (vis : list nat) (cur : option (nat * nat)) : Prop := {
  i_part : forall n, n < length (nodes b) <->
                     (In n (queue b) \/ In n vis \/ exists k, cur = Some (n, k));
  i_q_nodup : NoDup (queue b);
  i_q_fresh : forall n, In n (queue b) -> ~ In n vis /\ (forall k, cur <> Some (n, k)) /\ red b n = [];
  i_red_vis : forall n, In n vis -> length (red b n) = nreq_of b n;
  i_red_cur : forall n k, cur = Some (n, k) -> length (red b n) = k /\ k <= nreq_of b n /\ ~ In n vis;
  i_red_edge : forall c i m sx, nth_error (red b c) i = Some (m, sx) -> m < length (nodes b) /\ In (c, i) (out b m);
  i_out_edge : forall m c i, In (c, i) (out b m) -> exists sx, nth_error (red b c) i = Some (m, sx);
  i_out_nodup : forall m, NoDup (out b m);
  i_arg : forall n t, nth_error (nodes b) n = Some (NArg t) -> red b n = [];
  i_beyond : forall n, length (nodes b) <= n -> red b n = [] /\ out b n = [];
  i_pn : forall pi n, In (pi, n) (pn b) -> n < length (nodes b);
  i_an : forall t n, In (t, n) (an b) -> n < length (nodes b);
  i_pn_node : forall pi n, In (pi, n) (pn b) -> nth_error (nodes b) n = Some (NProv pi);
  i_an_node : forall t n, In (t, n) (an b) -> nth_error (nodes b) n = Some (NArg t);
  i_sx : forall c i m sx pi, nth_error (red b c) i = Some (m, sx) -> nth_error (nodes b) m = Some (NProv pi) -> sx < nprovides pi;
  (* argument nodes are exactly the entries of the argument map, one per type *)
  i_arg_an : forall n t, nth_error (nodes b) n = Some (NArg t) -> In (t, n) (an b);
  i_an_nodup : NoDup (map fst (an b));
  i_an_pm : forall t n, In (t, n) (an b) -> pm t = None;
  (* every resolved parameter was resolved by type: through the provider map, or as an injector argument of that type *)
  i_res : forall c i m sx pc, nth_error (red b c) i = Some (m, sx) -> nth_error (nodes b) c = Some (NProv pc) ->
            exists t, nth_error (requires pc) i = Some t /\
              match pm t with
              | Some (pi, gi) => sx = gi /\ nth_error (nodes b) m = Some (NProv pi)
              | None => sx = 0 /\ nth_error (nodes b) m = Some (NArg t)
              end;
  (* provider nodes other than the root are exactly the entries of the provider-node map, one per provider *)
  i_prov_pn : forall n pi, n <> 0 -> nth_error (nodes b) n = Some (NProv pi) -> In (pi, n) (pn b);
  i_pn_nodup : NoDup (map fst (pn b));
  i_nonempty : 0 < length (nodes b);
  (* counting: every node but the root is registered in exactly one of the two maps, whose keys come from the provider map
     and from requirement lists - this bounds the number of nodes, hence the fuel the search needs *)
  i_count : length (nodes b) = 1 + length (pn b) + length (an b);
  i_pn_pm : forall pi n, In (pi, n) (pn b) -> exists t gi, pm t = Some (pi, gi);
  i_an_req : forall t n, In (t, n) (an b) -> exists pc i, nth_error (requires pc) i = Some t }.

Lemma nreq_of_app b b' n extra : nodes b' = nodes b ++ extra -> n < length (nodes b) -> nreq_of b' n = nreq_of b n.
Proof. intros E H. unfold nreq_of. rewrite E. rewrite nth_error_app1 by auto. auto. Qed.

(* creating a node *)
Lemma new_node_inv b vis cur k (pnx : list (nat*nat)) (anx : list (N*nat)) :
  (forall pi n, In (pi, n) pnx -> n <= length (nodes b)) -> (forall t n, In (t, n) anx -> n <= length (nodes b)) ->
  (forall pi n, In (pi, n) pnx -> nth_error (nodes b ++ [k]) n = Some (NProv pi)) ->
  (forall t n, In (t, n) anx -> nth_error (nodes b ++ [k]) n = Some (NArg t)) ->
  (forall n t, nth_error (nodes b ++ [k]) n = Some (NArg t) -> In (t, n) anx) -> NoDup (map fst anx) -> (forall t n, In (t, n) anx -> pm t = None) ->
  (forall n pi, n <> 0 -> nth_error (nodes b ++ [k]) n = Some (NProv pi) -> In (pi, n) pnx) -> NoDup (map fst pnx) ->
  S (length (nodes b)) = 1 + length pnx + length anx -> (forall pi n, In (pi, n) pnx -> exists t gi, pm t = Some (pi, gi)) ->
  (forall t n, In (t, n) anx -> exists pc i, nth_error (requires pc) i = Some t) ->
  inv b vis cur ->
  inv {| nodes := nodes b ++ [k]; red := red b; out := out b; pn := pnx; an := anx; queue := queue b ++ [length (nodes b)] |} vis cur.
Proof.
  intros Hpn Han Hpnn Hann Harg Hand Hapm Hprov Hpnd Hcnt Hpp Har I. set (n2 := length (nodes b)).
  assert (Hlt : forall n, (In n (queue b) \/ In n vis \/ exists j, cur = Some (n, j)) -> n < length (nodes b))
    by (intros n H; apply (i_part _ _ _ I); exact H).
  assert (Hfresh : ~ In n2 (queue b) /\ ~ In n2 vis /\ (forall j, cur <> Some (n2, j))).
  { split; [|split].
    - intro H. specialize (Hlt n2 (or_introl H)). unfold n2 in Hlt. lia.
    - intro H. specialize (Hlt n2 (or_intror (or_introl H))). unfold n2 in Hlt. lia.
    - intros j H. specialize (Hlt n2 (or_intror (or_intror (ex_intro _ j H)))). unfold n2 in Hlt. lia. }
  destruct Hfresh as (F1 & F2 & F3).
  destruct (i_beyond _ _ _ I n2 (le_n _)) as (R0 & O0).
  constructor; cbn [nodes red out pn an queue].
  - intros n. rewrite app_length. simpl. split.
    + intros H. destruct (Nat.eq_dec n n2) as [->|Hne]; [left; apply in_or_app; right; left; auto|].
      assert (n < length (nodes b)) by (unfold n2 in *; lia). apply (i_part _ _ _ I) in H0. destruct H0 as [H0|H0]; [left; apply in_or_app; auto | right; auto].
    + intros [H|H]; [apply in_app_or in H; destruct H as [H|[<-|[]]]; [assert (n < length (nodes b)) by (apply (i_part _ _ _ I); auto); lia | unfold n2; lia] |
                     assert (n < length (nodes b)) by (apply (i_part _ _ _ I); auto); lia].
  - pose proof (i_q_nodup _ _ _ I) as ND. clear - ND F1. induction (queue b) as [|x l IH]; simpl; [constructor; auto; constructor|].
    inversion ND; subst. constructor; [intro H; apply in_app_or in H; destruct H as [H|[H|[]]]; [auto | subst; apply F1; left; auto] | apply IH; auto; intro; apply F1; right; auto].
  - intros n H. apply in_app_or in H. destruct H as [H|[<-|[]]]; [apply (i_q_fresh _ _ _ I); auto | repeat split; auto].
  - intros n Hn. rewrite (i_red_vis _ _ _ I n Hn). symmetry. apply (nreq_of_app b _ n [k]); [reflexivity | apply (i_part _ _ _ I); auto].
  - intros n j E. destruct (i_red_cur _ _ _ I n j E) as (A & B & C). repeat split; auto.
    rewrite (nreq_of_app b _ n [k]); [auto | reflexivity | apply (i_part _ _ _ I); right; right; eauto].
  - intros c i m sx H. destruct (i_red_edge _ _ _ I c i m sx H). split; auto. rewrite app_length. lia.
  - apply (i_out_edge _ _ _ I).
  - apply (i_out_nodup _ _ _ I).
  - intros n t H. destruct (Nat.eq_dec n n2) as [->|Hne]; auto.
    assert (n < length (nodes b)). { apply nth_error_Some_lt in H. rewrite app_length in H. simpl in H. unfold n2 in *. lia. }
    rewrite nth_error_app1 in H by auto. eapply (i_arg _ _ _ I); eauto.
  - intros n H. rewrite app_length in H. simpl in H. apply (i_beyond _ _ _ I). lia.
  - intros pi n H. rewrite app_length. simpl. specialize (Hpn pi n H). lia.
  - intros t n H. rewrite app_length. simpl. specialize (Han t n H). lia.
  - exact Hpnn.
  - exact Hann.
  - intros c i m sx pi H Hm. destruct (i_red_edge _ _ _ I c i m sx H) as (Hm2 & _).
    rewrite nth_error_app1 in Hm by auto. eapply (i_sx _ _ _ I); eauto.
  - exact Harg.
  - exact Hand.
  - exact Hapm.
  - intros c i m sx pc H Hc. destruct (i_red_edge _ _ _ I c i m sx H) as (Hm2 & _).
    assert (Hcl : c < length (nodes b)).
    { destruct (lt_dec c (length (nodes b))); auto. exfalso. destruct (i_beyond _ _ _ I c) as (R & _); [lia|]. rewrite R in H. destruct i; discriminate. }
    rewrite nth_error_app1 in Hc by auto. destruct (i_res _ _ _ I c i m sx pc H Hc) as (t & Ht & Hm).
    exists t. split; auto. destruct (pm t) as [[pi gi]|]; destruct Hm as (A & B); split; auto; rewrite nth_error_app1; auto.
  - exact Hprov.
  - exact Hpnd.
  - rewrite app_length. simpl. lia.
  - rewrite app_length. simpl. lia.
  - exact Hpp.
  - exact Har.
Qed.

Lemma assocn_In {A} k (l : list (nat * A)) v : assocn k l = Some v -> In (k, v) l.
Proof. induction l as [|[k' v'] r IH]; simpl; [discriminate|]. destruct (Nat.eqb k k') eqn:E; [intros H; inversion H; apply Nat.eqb_eq in E; subst; left; auto | intros H; right; auto]. Qed.
Lemma assocN_In {A} k (l : list (N * A)) v : assocN k l = Some v -> In (k, v) l.
Proof. induction l as [|[k' v'] r IH]; simpl; [discriminate|]. destruct (N.eqb k k') eqn:E; [intros H; inversion H; apply N.eqb_eq in E; subst; left; auto | intros H; right; auto]. Qed.

Lemma resolve_inv b vis cur t b' n2 sx : inv b vis cur -> resolve b t = (b', n2, sx) ->
  (exists pc i, nth_error (requires pc) i = Some t) ->
  inv b' vis cur /\ n2 < length (nodes b') /\ (forall n, n < length (nodes b) -> nth_error (nodes b') n = nth_error (nodes b) n) /\
  length (nodes b) <= length (nodes b') /\ (forall pi, nth_error (nodes b') n2 = Some (NProv pi) -> sx < nprovides pi).
Proof.
  intros I R Hreq. unfold resolve in R. destruct (pm t) as [[pi gi]|] eqn:Pm.
  - destruct (assocn pi (pn b)) as [m|] eqn:A.
    + inversion R; subst. apply assocn_In in A. split; auto. split; [apply (i_pn _ _ _ I pi); auto|]. split; auto. split; auto.
      intros pi' H. rewrite (i_pn_node _ _ _ I _ _ A) in H. inversion H; subst. eapply pm_ok; eauto.
    + inversion R; subst. cbn [nodes]. split; [|split; [|split; [|split]]].
      * apply new_node_inv; auto.
        -- intros p n H. apply in_app_or in H. destruct H as [H|[H|[]]]; [pose proof (i_pn _ _ _ I p n H); lia | inversion H; lia].
        -- intros t0 n H. pose proof (i_an _ _ _ I t0 n H). lia.
        -- intros p n H. apply in_app_or in H. destruct H as [H|[H|[]]].
           ++ rewrite nth_error_app1 by (apply (i_pn _ _ _ I p n H)). apply (i_pn_node _ _ _ I); auto.
           ++ inversion H; subst. rewrite nth_error_app2 by lia. rewrite Nat.sub_diag. reflexivity.
        -- intros t0 n H. rewrite nth_error_app1 by (apply (i_an _ _ _ I t0 n H)). apply (i_an_node _ _ _ I); auto.
        -- intros n t0 H. destruct (lt_dec n (length (nodes b))) as [Hl|Hl]; [rewrite nth_error_app1 in H by auto; apply (i_arg_an _ _ _ I); auto|].
           assert (Hn : n = length (nodes b)) by (apply nth_error_Some_lt in H; rewrite app_length in H; simpl in H; lia).
           subst n. rewrite nth_error_app2 in H by lia. rewrite Nat.sub_diag in H. discriminate.
        -- apply (i_an_nodup _ _ _ I).
        -- apply (i_an_pm _ _ _ I).
        -- intros n p Hn0 H. destruct (lt_dec n (length (nodes b))) as [Hl|Hl]; [rewrite nth_error_app1 in H by auto; apply in_or_app; left; apply (i_prov_pn _ _ _ I); auto|].
           assert (Hn : n = length (nodes b)) by (apply nth_error_Some_lt in H; rewrite app_length in H; simpl in H; lia).
           subst n. rewrite nth_error_app2 in H by lia. rewrite Nat.sub_diag in H. inversion H; subst. apply in_or_app. right. left. reflexivity.
        -- rewrite map_app. simpl. assert (Hnin : ~ In pi (map fst (pn b))).
           { clear - A. induction (pn b) as [|[k v] r IHr]; simpl in *; [tauto|]. destruct (Nat.eqb_spec pi k) as [->|Hne]; [discriminate|]. intros [E|E]; [congruence|apply IHr; auto]. }
           pose proof (i_pn_nodup _ _ _ I) as ND. clear - ND Hnin. induction (map fst (pn b)) as [|x l IHl]; simpl; [constructor; auto; constructor|].
           inversion ND; subst. constructor; [intro H; apply in_app_or in H; destruct H as [H|[H|[]]]; [auto | subst; apply Hnin; left; auto] | apply IHl; auto; intro; apply Hnin; right; auto].
        -- rewrite app_length. simpl. pose proof (i_count _ _ _ I). lia.
        -- intros p n H. apply in_app_or in H. destruct H as [H|[H|[]]]; [apply (i_pn_pm _ _ _ I p n H) | inversion H; subst; eauto].
        -- apply (i_an_req _ _ _ I).
      * rewrite app_length. simpl. lia.
      * intros n Hn. rewrite nth_error_app1; auto.
      * rewrite app_length. lia.
      * intros pi' H. rewrite nth_error_app2 in H by lia. rewrite Nat.sub_diag in H. inversion H; subst. eapply pm_ok; eauto.
  - destruct (assocN t (an b)) as [m|] eqn:A.
    + inversion R; subst. split; auto. split; [apply (i_an _ _ _ I t); apply assocN_In; auto|]. split; auto. split; auto.
      intros pi' H. (* an argument node is never a provider node: use i_an_node below *)
      exfalso. apply assocN_In in A. pose proof (i_an_node _ _ _ I _ _ A) as E. rewrite E in H. discriminate.
    + inversion R; subst. cbn [nodes]. split; [|split; [|split; [|split]]].
      * apply new_node_inv; auto.
        -- intros p n H. pose proof (i_pn _ _ _ I p n H). lia.
        -- intros t0 n H. apply in_app_or in H. destruct H as [H|[H|[]]]; [pose proof (i_an _ _ _ I t0 n H); lia | inversion H; lia].
        -- intros p n H. rewrite nth_error_app1 by (apply (i_pn _ _ _ I p n H)). apply (i_pn_node _ _ _ I); auto.
        -- intros t0 n H. apply in_app_or in H. destruct H as [H|[H|[]]].
           ++ rewrite nth_error_app1 by (apply (i_an _ _ _ I t0 n H)). apply (i_an_node _ _ _ I); auto.
           ++ inversion H; subst. rewrite nth_error_app2 by lia. rewrite Nat.sub_diag. reflexivity.
        -- intros n t0 H. destruct (lt_dec n (length (nodes b))) as [Hl|Hl]; [rewrite nth_error_app1 in H by auto; apply in_or_app; left; apply (i_arg_an _ _ _ I); auto|].
           assert (Hn : n = length (nodes b)) by (apply nth_error_Some_lt in H; rewrite app_length in H; simpl in H; lia).
           subst n. rewrite nth_error_app2 in H by lia. rewrite Nat.sub_diag in H. inversion H; subst. apply in_or_app. right. left. reflexivity.
        -- rewrite map_app. simpl. assert (Hnin : ~ In t (map fst (an b))).
           { clear - A. induction (an b) as [|[k v] r IHr]; simpl in *; [tauto|]. destruct (N.eqb_spec t k) as [->|Hne]; [discriminate|]. intros [E|E]; [congruence|apply IHr; auto]. }
           pose proof (i_an_nodup _ _ _ I) as ND. clear - ND Hnin. induction (map fst (an b)) as [|x l IHl]; simpl; [constructor; auto; constructor|].
           inversion ND; subst. constructor; [intro H; apply in_app_or in H; destruct H as [H|[H|[]]]; [auto | subst; apply Hnin; left; auto] | apply IHl; auto; intro; apply Hnin; right; auto].
        -- intros t0 n H. apply in_app_or in H. destruct H as [H|[H|[]]]; [apply (i_an_pm _ _ _ I t0 n H) | inversion H; subst; exact Pm].
        -- intros n p Hn0 H. destruct (lt_dec n (length (nodes b))) as [Hl|Hl]; [rewrite nth_error_app1 in H by auto; apply (i_prov_pn _ _ _ I); auto|].
           assert (Hn : n = length (nodes b)) by (apply nth_error_Some_lt in H; rewrite app_length in H; simpl in H; lia).
           subst n. rewrite nth_error_app2 in H by lia. rewrite Nat.sub_diag in H. discriminate.
        -- apply (i_pn_nodup _ _ _ I).
        -- rewrite app_length. simpl. pose proof (i_count _ _ _ I). lia.
        -- apply (i_pn_pm _ _ _ I).
        -- intros t0 n H. apply in_app_or in H. destruct H as [H|[H|[]]]; [apply (i_an_req _ _ _ I t0 n H) | inversion H; subst; exact Hreq].
      * rewrite app_length. simpl. lia.
      * intros n Hn. rewrite nth_error_app1; auto.
      * rewrite app_length. lia.
      * intros pi' H. rewrite nth_error_app2 in H by lia. rewrite Nat.sub_diag in H. discriminate.
Qed.

Lemma resolve_res b vis cur t b' n2 sx : inv b vis cur -> resolve b t = (b', n2, sx) ->
  match pm t with Some (pi, gi) => sx = gi /\ nth_error (nodes b') n2 = Some (NProv pi) | None => sx = 0 /\ nth_error (nodes b') n2 = Some (NArg t) end.
Proof.
  intros I R. unfold resolve in R. destruct (pm t) as [[pi gi]|] eqn:Pm.
  - destruct (assocn pi (pn b)) as [m|] eqn:A.
    + inversion R; subst. apply assocn_In in A. split; auto. apply (i_pn_node _ _ _ I); auto.
    + inversion R; subst. cbn [nodes]. split; auto. rewrite nth_error_app2 by lia. rewrite Nat.sub_diag. reflexivity.
  - destruct (assocN t (an b)) as [m|] eqn:A.
    + inversion R; subst. apply assocN_In in A. split; auto. apply (i_an_node _ _ _ I); auto.
    + inversion R; subst. cbn [nodes]. split; auto. rewrite nth_error_app2 by lia. rewrite Nat.sub_diag. reflexivity.
Qed.

Lemma nreq_add_edge b n2 sx n1 i n : nreq_of (add_edge b n2 sx n1 i) n = nreq_of b n.
Proof. reflexivity. Qed.

Lemma add_edge_inv b vis n1 k n2 sx : inv b vis (Some (n1, k)) -> n2 < length (nodes b) -> k < nreq_of b n1 ->
  (forall pi, nth_error (nodes b) n2 = Some (NProv pi) -> sx < nprovides pi) ->
  (forall pc, nth_error (nodes b) n1 = Some (NProv pc) -> exists t, nth_error (requires pc) k = Some t /\
       match pm t with Some (pi, gi) => sx = gi /\ nth_error (nodes b) n2 = Some (NProv pi) | None => sx = 0 /\ nth_error (nodes b) n2 = Some (NArg t) end) ->
  inv (add_edge b n2 sx n1 k) vis (Some (n1, S k)).
Proof.
  intros I H2 Hk Hsx Hres. destruct (i_red_cur _ _ _ I n1 k eq_refl) as (Lk & _ & Hnv).
  assert (Hn1 : n1 < length (nodes b)) by (apply (i_part _ _ _ I); right; right; eauto).
  constructor; unfold add_edge; cbn [nodes red out pn an queue].
  - intros n. rewrite (i_part _ _ _ I n). split; intros [H|[H|(j & H)]]; auto; right; right; injection H as E1 E2; rewrite E1; eauto.
  - apply (i_q_nodup _ _ _ I).
  - intros n Hq. destruct (i_q_fresh _ _ _ I n Hq) as (A & B & C). split; auto. split.
    + intros j E. apply (B k). congruence.
    + rewrite fupd_neq; auto. intro En. apply (B k). congruence.
  - intros n Hn. rewrite fupd_neq by (intro; subst; contradiction). apply (i_red_vis _ _ _ I); auto.
  - intros n j E. injection E as E1 E2. subst n j. rewrite fupd_eq, app_length. unfold nreq_of in *. simpl. split; [lia|]. split; [lia|exact Hnv].
  - intros c i m sx' H. destruct (Nat.eq_dec c n1) as [->|Hc].
    + rewrite fupd_eq in H. destruct (lt_dec i k) as [Hi|Hi].
      * rewrite nth_error_app1 in H by lia. destruct (i_red_edge _ _ _ I _ _ _ _ H) as (A & B). split; auto.
        destruct (Nat.eq_dec m n2) as [->|Hm]; [rewrite fupd_eq; apply in_or_app; auto | rewrite fupd_neq; auto].
      * rewrite nth_error_app2 in H by lia. replace (i - length (red b n1)) with (i - k) in H by lia.
        destruct (i - k) as [|d] eqn:D; simpl in H; [|destruct d; discriminate]. inversion H; subst. split; auto.
        rewrite fupd_eq. apply in_or_app. right. left. f_equal. lia.
    + rewrite fupd_neq in H by auto. destruct (i_red_edge _ _ _ I _ _ _ _ H) as (A & B). split; auto.
      destruct (Nat.eq_dec m n2) as [->|Hm]; [rewrite fupd_eq; apply in_or_app; auto | rewrite fupd_neq; auto].
  - intros m c i H. destruct (Nat.eq_dec m n2) as [->|Hm].
    + rewrite fupd_eq in H. apply in_app_or in H. destruct H as [H|[H|[]]].
      * destruct (i_out_edge _ _ _ I _ _ _ H) as (sx' & E). exists sx'. destruct (Nat.eq_dec c n1) as [->|Hc]; [rewrite fupd_eq; rewrite nth_error_app1; auto; apply nth_error_Some_lt in E; auto | rewrite fupd_neq; auto].
      * inversion H; subst. exists sx. rewrite fupd_eq. rewrite nth_error_app2 by lia. rewrite Nat.sub_diag. reflexivity.
    + rewrite fupd_neq in H by auto. destruct (i_out_edge _ _ _ I _ _ _ H) as (sx' & E). exists sx'.
      destruct (Nat.eq_dec c n1) as [->|Hc]; [rewrite fupd_eq; rewrite nth_error_app1; auto; apply nth_error_Some_lt in E; auto | rewrite fupd_neq; auto].
  - intros m. destruct (Nat.eq_dec m n2) as [->|Hm]; [|rewrite fupd_neq; auto; apply (i_out_nodup _ _ _ I)].
    rewrite fupd_eq. pose proof (i_out_nodup _ _ _ I n2) as ND.
    assert (Hnot : ~ In (n1, k) (out b n2)).
    { intro H. destruct (i_out_edge _ _ _ I _ _ _ H) as (sx' & E). apply nth_error_Some_lt in E. lia. }
    clear - ND Hnot. induction (out b n2) as [|x l IH]; simpl; [constructor; auto; constructor|].
    inversion ND; subst. constructor; [intro H; apply in_app_or in H; destruct H as [H|[H|[]]]; [auto | subst; apply Hnot; left; auto] | apply IH; auto; intro; apply Hnot; right; auto].
  - intros n t H. rewrite fupd_neq; [apply (i_arg _ _ _ I n t H)|]. intro; subst.
    unfold nreq_of in Hk. rewrite H in Hk. lia.
  - intros n H. destruct (i_beyond _ _ _ I n H) as (A & B). split; [rewrite fupd_neq; auto; lia | rewrite fupd_neq; auto; lia].
  - apply (i_pn _ _ _ I).
  - apply (i_an _ _ _ I).
  - apply (i_pn_node _ _ _ I).
  - apply (i_an_node _ _ _ I).
  - intros c i m sx' pi H Hm. destruct (Nat.eq_dec c n1) as [->|Hc].
    + rewrite fupd_eq in H. destruct (lt_dec i k) as [Hi|Hi].
      * rewrite nth_error_app1 in H by lia. eapply (i_sx _ _ _ I); eauto.
      * rewrite nth_error_app2 in H by lia. replace (i - length (red b n1)) with (i - k) in H by lia.
        destruct (i - k) as [|d] eqn:D; simpl in H; [|destruct d; discriminate]. inversion H; subst. apply Hsx; auto.
    + rewrite fupd_neq in H by auto. eapply (i_sx _ _ _ I); eauto.
  - apply (i_arg_an _ _ _ I).
  - apply (i_an_nodup _ _ _ I).
  - apply (i_an_pm _ _ _ I).
  - intros c i m sx' pc H Hc. destruct (Nat.eq_dec c n1) as [->|Hcn].
    + rewrite fupd_eq in H. destruct (lt_dec i k) as [Hi|Hi].
      * rewrite nth_error_app1 in H by lia. eapply (i_res _ _ _ I); eauto.
      * rewrite nth_error_app2 in H by lia. replace (i - length (red b n1)) with (i - k) in H by lia.
        destruct (i - k) as [|d] eqn:D; simpl in H; [|destruct d; discriminate]. inversion H; subst m sx'.
        assert (i = k) by lia. subst i. apply Hres. exact Hc.
    + rewrite fupd_neq in H by auto. eapply (i_res _ _ _ I); eauto.
  - apply (i_prov_pn _ _ _ I).
  - apply (i_pn_nodup _ _ _ I).
  - apply (i_nonempty _ _ _ I).
  - apply (i_count _ _ _ I).
  - apply (i_pn_pm _ _ _ I).
  - apply (i_an_req _ _ _ I).
Qed.

Lemma do_reqs_inv : forall ts b vis n1 k, inv b vis (Some (n1, k)) -> k + length ts = nreq_of b n1 ->
  (exists pc, nth_error (nodes b) n1 = Some (NProv pc) /\ ts = skipn k (requires pc)) ->
  let b' := do_reqs b n1 k ts in
  inv b' vis (Some (n1, nreq_of b n1)) /\ length (nodes b) <= length (nodes b') /\
  (forall n, n < length (nodes b) -> nth_error (nodes b') n = nth_error (nodes b) n).
Proof.
  induction ts as [|t r IH]; intros b vis n1 k I Hk Hts0; simpl.
  - rewrite Nat.add_0_r in Hk. subst. auto.
  - simpl in Hk. destruct (resolve b t) as [[b1 n2] sx] eqn:R.
    destruct Hts0 as (pc0 & Hpc0 & Hts0).
    assert (Hts : forall pc, nth_error (nodes b) n1 = Some (NProv pc) -> t :: r = skipn k (requires pc)) by (intros pc Hpc; rewrite Hpc0 in Hpc; inversion Hpc; subst; exact Hts0).
    assert (Hskip0 : forall (A : Type) (l : list A) k x r0, skipn k l = x :: r0 -> nth_error l k = Some x /\ skipn (S k) l = r0).
    { intros A l. induction l as [|a l' IHl]; intros k0 x r0 E; [destruct k0; discriminate|]. destruct k0; simpl in *; [inversion E; auto | apply IHl; auto]. }
    assert (Hreq : exists pc i, nth_error (requires pc) i = Some t) by (exists pc0, k; symmetry in Hts0; apply Hskip0 in Hts0; apply Hts0).
    destruct (resolve_inv _ _ _ _ _ _ _ I R Hreq) as (I1 & H2 & Hsame & Hlen & Hsx).
    pose proof (resolve_res _ _ _ _ _ _ _ I R) as Hrr.
    assert (Hn1 : n1 < length (nodes b)) by (apply (i_part _ _ _ I); right; right; eauto).
    assert (Hq : nreq_of b1 n1 = nreq_of b n1) by (unfold nreq_of; rewrite Hsame; auto).
    assert (Hskip : forall (A : Type) (l : list A) k x r0, skipn k l = x :: r0 -> nth_error l k = Some x /\ skipn (S k) l = r0).
    { intros A l. induction l as [|a l' IHl]; intros k0 x r0 E; [destruct k0; discriminate|]. destruct k0; simpl in *; [inversion E; auto | apply IHl; auto]. }
    assert (I2 : inv (add_edge b1 n2 sx n1 k) vis (Some (n1, S k))).
    { apply add_edge_inv; auto; [lia|]. intros pc Hpc. rewrite Hsame in Hpc by auto. specialize (Hts pc Hpc). symmetry in Hts. apply Hskip in Hts. exists t. split; [apply Hts|exact Hrr]. }
    destruct (IH _ _ _ _ I2) as (I3 & L3 & S3); [rewrite nreq_add_edge, Hq; lia| |].
    { exists pc0. cbn [add_edge nodes]. rewrite Hsame by auto. split; [exact Hpc0|]. symmetry in Hts0. apply Hskip0 in Hts0. symmetry. apply Hts0. }
    rewrite nreq_add_edge, Hq in I3. split; auto. split; [simpl in L3; lia|].
    intros n Hn. rewrite S3 by (simpl; lia). simpl. auto.
Qed.

Definition setq (b : bst) (q : list nat) : bst :=
  {| nodes := nodes b; red := red b; out := out b; pn := pn b; an := an b; queue := q |}.

Lemma memn_In x l : memn x l = true <-> In x l.
Proof. unfold memn. rewrite existsb_exists. split; [intros (y & H & E); apply Nat.eqb_eq in E; subst; auto | intros H; exists x; split; auto; apply Nat.eqb_refl]. Qed.

(* popping the head of the queue and starting to resolve its parameters *)
Lemma pop_inv b vis n1 q : inv b vis None -> queue b = n1 :: q -> inv (setq b q) vis (Some (n1, 0)) /\ ~ In n1 vis.
Proof.
  intros I Hq. destruct (i_q_fresh _ _ _ I n1) as (Hv & _ & Hr); [rewrite Hq; left; auto|].
  pose proof (i_q_nodup _ _ _ I) as ND. rewrite Hq in ND. inversion ND as [|? ? Hnq NDq]; subst.
  split; auto. constructor; unfold setq; cbn [nodes red out pn an queue].
  - intros n. rewrite (i_part _ _ _ I n), Hq. split.
    + intros [[<-|H]|[H|(j & H)]]; [right; right; eauto | auto | auto | discriminate].
    + intros [H|[H|(j & H)]]; [left; right; auto | auto | injection H as E1 E2; subst; left; left; auto].
  - exact NDq.
  - intros n H. destruct (i_q_fresh _ _ _ I n) as (A & _ & C); [rewrite Hq; right; auto|]. split; auto. split; auto.
    intros j E. injection E as E1 E2. subst. contradiction.
  - apply (i_red_vis _ _ _ I).
  - intros n j E. injection E as E1 E2. subst. rewrite Hr. simpl. split; auto. split; [lia|auto].
  - apply (i_red_edge _ _ _ I).
  - apply (i_out_edge _ _ _ I).
  - apply (i_out_nodup _ _ _ I).
  - apply (i_arg _ _ _ I).
  - apply (i_beyond _ _ _ I).
  - apply (i_pn _ _ _ I).
  - apply (i_an _ _ _ I).
  - apply (i_pn_node _ _ _ I).
  - apply (i_an_node _ _ _ I).
  - apply (i_sx _ _ _ I).
  - apply (i_arg_an _ _ _ I).
  - apply (i_an_nodup _ _ _ I).
  - apply (i_an_pm _ _ _ I).
  - apply (i_res _ _ _ I).
  - apply (i_prov_pn _ _ _ I).
  - apply (i_pn_nodup _ _ _ I).
  - apply (i_nonempty _ _ _ I).
  - apply (i_count _ _ _ I).
  - apply (i_pn_pm _ _ _ I).
  - apply (i_an_req _ _ _ I).
Qed.

(* finishing a node: all of its parameters have been resolved *)
Lemma finish_inv b vis n1 : inv b vis (Some (n1, nreq_of b n1)) -> inv b (n1 :: vis) None.
Proof.
  intros I. destruct (i_red_cur _ _ _ I n1 _ eq_refl) as (L & _ & Hv).
  constructor.
  - intros n. rewrite (i_part _ _ _ I n). split.
    + intros [H|[H|(j & H)]]; [auto | right; left; right; auto | injection H as E1 E2; subst; right; left; left; auto].
    + intros [H|[[<-|H]|(j & H)]]; [auto | right; right; eauto | auto | discriminate].
  - apply (i_q_nodup _ _ _ I).
  - intros n H. destruct (i_q_fresh _ _ _ I n H) as (A & B & C). split; [|split; [intros; discriminate|auto]].
    intros [<-|Hn]; [apply (B (nreq_of b n1)); reflexivity | auto].
  - intros n [<-|H]; [exact L | apply (i_red_vis _ _ _ I); auto].
  - intros n j E. discriminate.
  - apply (i_red_edge _ _ _ I).
  - apply (i_out_edge _ _ _ I).
  - apply (i_out_nodup _ _ _ I).
  - apply (i_arg _ _ _ I).
  - apply (i_beyond _ _ _ I).
  - apply (i_pn _ _ _ I).
  - apply (i_an _ _ _ I).
  - apply (i_pn_node _ _ _ I).
  - apply (i_an_node _ _ _ I).
  - apply (i_sx _ _ _ I).
  - apply (i_arg_an _ _ _ I).
  - apply (i_an_nodup _ _ _ I).
  - apply (i_an_pm _ _ _ I).
  - apply (i_res _ _ _ I).
  - apply (i_prov_pn _ _ _ I).
  - apply (i_pn_nodup _ _ _ I).
  - apply (i_nonempty _ _ _ I).
  - apply (i_count _ _ _ I).
  - apply (i_pn_pm _ _ _ I).
  - apply (i_an_req _ _ _ I).
Qed.

Lemma loop_inv : forall fuel b vis b' vis', inv b vis None -> loop fuel b vis = Some (b', vis') ->
  inv b' vis' None /\ queue b' = [].
Proof.
  induction fuel as [|fuel IH]; intros b vis b' vis' I H; simpl in H; [discriminate|].
  destruct (queue b) as [|n1 q] eqn:Hq.
  - inversion H; subst. auto.
  - fold (setq b q) in H. destruct (pop_inv _ _ _ _ I Hq) as (I0 & Hnv).
    destruct (memn n1 vis) eqn:M; [apply memn_In in M; contradiction|].
    assert (Hn1 : n1 < length (nodes b)) by (apply (i_part _ _ _ I); left; rewrite Hq; left; auto).
    destruct (nth_error (nodes b) n1) as [[t|pi]|] eqn:E.
    + (* argument node: nothing to resolve *)
      eapply IH; [|exact H]. apply finish_inv. unfold nreq_of, setq. cbn [nodes]. rewrite E. exact I0.
    + pose proof (do_reqs_inv (requires pi) (setq b q) vis n1 0 I0) as D. simpl in D.
      assert (Hlen : length (requires pi) = nreq_of (setq b q) n1) by (unfold nreq_of, setq; cbn [nodes]; rewrite E; auto).
      assert (Hts0 : exists pc, nth_error (nodes (setq b q)) n1 = Some (NProv pc) /\ requires pi = skipn 0 (requires pc)).
      { exists pi. unfold setq. cbn [nodes]. split; [exact E | reflexivity]. }
      destruct (D Hlen Hts0) as (I1 & L1 & S1). eapply IH; [|exact H]. apply finish_inv.
      assert (nreq_of (do_reqs (setq b q) n1 0 (requires pi)) n1 = nreq_of (setq b q) n1).
      { unfold nreq_of. rewrite S1; auto. }
      rewrite H0. exact I1.
    + exfalso. apply nth_error_None in E. lia.
Qed.

(* ---- every node but the root is required by some node (so every node of the graph is needed) ---- *)
Definition hasout (b : bst) : Prop := forall n, 0 < n -> n < length (nodes b) -> out b n <> [].
Lemma app_one_nonnil {A} (l : list A) x : l ++ [x] <> []. Proof. destruct l; discriminate. Qed.
Lemma resolve_edge_hasout b t n1 i b' n2 sx : hasout b -> resolve b t = (b', n2, sx) -> hasout (add_edge b' n2 sx n1 i).
Proof.
  intros H R. unfold resolve in R.
  assert (Old : forall n, hasout (add_edge b n sx n1 i)).
  { intros n m Hm Hl. unfold add_edge in *. cbn [nodes out] in *. destruct (Nat.eq_dec m n) as [->|Hne]; [rewrite fupd_eq; apply app_one_nonnil | rewrite fupd_neq by auto; apply H; auto]. }
  assert (New : forall k pnx anx q, hasout (add_edge {| nodes := nodes b ++ [k]; red := red b; out := out b; pn := pnx; an := anx; queue := q |} (length (nodes b)) sx n1 i)).
  { intros k pnx anx q m Hm Hl. unfold add_edge in *. cbn [nodes out] in *. rewrite app_length in Hl. simpl in Hl.
    destruct (Nat.eq_dec m (length (nodes b))) as [->|Hne]; [rewrite fupd_eq; apply app_one_nonnil | rewrite fupd_neq by auto; apply H; auto; lia]. }
  destruct (pm t) as [[pi gi]|].
  - destruct (assocn pi (pn b)); inversion R; subst; [apply Old | apply New].
  - destruct (assocN t (an b)); inversion R; subst; [apply Old | apply New].
Qed.
Lemma do_reqs_hasout : forall ts b n1 i, hasout b -> hasout (do_reqs b n1 i ts).
Proof.
  induction ts as [|t r IH]; intros b n1 i H; simpl; auto.
  destruct (resolve b t) as [[b' n2] sx] eqn:R. apply IH. eapply resolve_edge_hasout; eauto.
Qed.
Lemma loop_hasout : forall fuel b vis b' vis', hasout b -> loop fuel b vis = Some (b', vis') -> hasout b'.
Proof.
  induction fuel as [|fuel IH]; intros b vis b' vis' H L; simpl in L; [discriminate|].
  destruct (queue b) as [|n1 q]; [inversion L; subst; auto|].
  set (bq := {| nodes := nodes b; red := red b; out := out b; pn := pn b; an := an b; queue := q |}) in *.
  assert (Hq : hasout bq) by exact H.
  destruct (memn n1 vis); [eapply IH; eauto|]. cbn [nodes] in L.
  destruct (nth_error (nodes b) n1) as [[t|pi]|]; [eapply IH; eauto | | eapply IH; eauto].
  eapply IH; [|exact L]. apply do_reqs_hasout. exact Hq.
Qed.

(* ---- the search never runs out of fuel: each iteration pops one node, and every node is pushed once ---- *)
Lemma resolve_counts b t b' n2 sx : resolve b t = (b', n2, sx) ->
  length (queue b') + length (nodes b) = length (queue b) + length (nodes b').
Proof.
  unfold resolve. destruct (pm t) as [[pi gi]|].
  - destruct (assocn pi (pn b)); intros R; inversion R; subst; cbn [queue nodes]; rewrite ?app_length; simpl; lia.
  - destruct (assocN t (an b)); intros R; inversion R; subst; cbn [queue nodes]; rewrite ?app_length; simpl; lia.
Qed.
Lemma do_reqs_counts : forall ts b n1 i,
  length (queue (do_reqs b n1 i ts)) + length (nodes b) = length (queue b) + length (nodes (do_reqs b n1 i ts)).
Proof.
  induction ts as [|t r IH]; intros b n1 i; simpl; [lia|].
  destruct (resolve b t) as [[b' n2] sx] eqn:R. pose proof (resolve_counts _ _ _ _ _ R) as C.
  specialize (IH (add_edge b' n2 sx n1 i) n1 (S i)). cbn [add_edge queue nodes] in IH. lia.
Qed.
Section Total.
Variable Nmax : nat.
Hypothesis nodes_bound : forall b vis cur, inv b vis cur -> length (nodes b) <= Nmax.
Lemma loop_total : forall fuel b vis, inv b vis None -> length (queue b) + (Nmax - length (nodes b)) < fuel ->
  exists r, loop fuel b vis = Some r.
Proof.
  induction fuel as [|fuel IH]; intros b vis I HF; [lia|]. simpl.
  destruct (queue b) as [|n1 q] eqn:Hq; [eauto|].
  fold (setq b q). destruct (pop_inv _ _ _ _ I Hq) as (I0 & Hnv).
  destruct (memn n1 vis) eqn:M; [apply memn_In in M; contradiction|].
  assert (Hn1 : n1 < length (nodes b)) by (apply (i_part _ _ _ I); left; rewrite Hq; left; auto).
  simpl in HF. cbn [setq nodes].
  destruct (nth_error (nodes b) n1) as [[t|pi]|] eqn:E.
  - apply IH; [|unfold setq; cbn [queue nodes]; lia]. apply finish_inv. unfold nreq_of, setq. cbn [nodes]. rewrite E. exact I0.
  - pose proof (do_reqs_inv (requires pi) (setq b q) vis n1 0 I0) as D. simpl in D.
    assert (Hlen : length (requires pi) = nreq_of (setq b q) n1) by (unfold nreq_of, setq; cbn [nodes]; rewrite E; auto).
    assert (Hts0 : exists pc, nth_error (nodes (setq b q)) n1 = Some (NProv pc) /\ requires pi = skipn 0 (requires pc)).
    { exists pi. unfold setq. cbn [nodes]. split; [exact E | reflexivity]. }
    destruct (D Hlen Hts0) as (I1 & L1 & S1).
    assert (I2 : inv (do_reqs (setq b q) n1 0 (requires pi)) (n1 :: vis) None).
    { apply finish_inv.
      assert (nreq_of (do_reqs (setq b q) n1 0 (requires pi)) n1 = nreq_of (setq b q) n1) by (unfold nreq_of; rewrite S1; auto).
      rewrite H. exact I1. }
    apply IH; [exact I2|].
    pose proof (do_reqs_counts (requires pi) (setq b q) n1 0) as C. pose proof (nodes_bound _ _ _ I2) as B.
    unfold setq in *. cbn [queue nodes] in *. lia.
  - exfalso. apply nth_error_None in E. lia.
Qed.
End Total.

(* ---- the graph facts the scheduler proofs assume ---- *)
Section Final.
Variable b : bst. Variable vis : list nat.
Hypothesis I : inv b vis None.
Hypothesis Q : queue b = [].
Definition nn := length (nodes b).
Definition nreq (c : nat) : nat := length (red b c).
Definition src (c i : nat) : nat := fst (nth i (red b c) (0, 0)).

Theorem outs_src : forall n c i, In (c, i) (out b n) <-> (c < nn /\ i < nreq c /\ src c i = n).
Proof.
  intros n c i. split.
  - intros H. destruct (i_out_edge _ _ _ I _ _ _ H) as (sx & E). assert (Hi : i < nreq c) by (eapply nth_error_Some_lt; eauto).
    split; [|split; auto].
    + destruct (lt_dec c nn); auto. exfalso. destruct (i_beyond _ _ _ I c) as (R & _); [unfold nn in *; lia|]. unfold nreq in Hi. rewrite R in Hi. simpl in Hi. lia.
    + unfold src. rewrite (nth_error_nth _ _ _ E). reflexivity.
  - intros (Hc & Hi & Hs). unfold nreq in Hi. destruct (nth_error (red b c) i) as [[m sx]|] eqn:E; [|apply nth_error_None in E; lia].
    destruct (i_red_edge _ _ _ I _ _ _ _ E) as (_ & Hin). unfold src in Hs. rewrite (nth_error_nth _ _ _ E) in Hs. simpl in Hs. subst. exact Hin.
Qed.
Theorem outs_nodup : forall n, NoDup (out b n). Proof. apply (i_out_nodup _ _ _ I). Qed.
Theorem src_lt : forall c i, c < nn -> i < nreq c -> src c i < nn.
Proof.
  intros c i Hc Hi. unfold nreq in Hi. destruct (nth_error (red b c) i) as [[m sx]|] eqn:E; [|apply nth_error_None in E; lia].
  destruct (i_red_edge _ _ _ I _ _ _ _ E) as (Hm & _). unfold src. rewrite (nth_error_nth _ _ _ E). exact Hm.
Qed.
Theorem nreq_is_requires : forall c, c < nn -> nreq c = nreq_of b c.
Proof.
  intros c Hc. apply (i_red_vis _ _ _ I). apply (i_part _ _ _ I) in Hc. rewrite Q in Hc. destruct Hc as [[]|[H|(j & H)]]; [auto|discriminate].
Qed.
Definition sidx (c i : nat) : nat := snd (nth i (red b c) (0, 0)).
Theorem sidx_lt : forall c i pi, c < nn -> i < nreq c -> nth_error (nodes b) (src c i) = Some (NProv pi) -> sidx c i < nprovides pi.
Proof.
  intros c i pi Hc Hi Hn. unfold nreq in Hi. destruct (nth_error (red b c) i) as [[m sx]|] eqn:E; [|apply nth_error_None in E; lia].
  unfold src in Hn. unfold sidx. rewrite (nth_error_nth _ _ _ E) in *. simpl in *. eapply (i_sx _ _ _ I); eauto.
Qed.
Theorem arg_noreq : forall n t, nth_error (nodes b) n = Some (NArg t) -> nreq n = 0.
Proof. intros n t H. unfold nreq. rewrite (i_arg _ _ _ I n t H). reflexivity. Qed.
(* every parameter was resolved by its type: through the provider map (which provider, which result), or - when no
   provider supplies the type - as THE argument node of that type *)
Theorem res_by_type : forall c pc i, nth_error (nodes b) c = Some (NProv pc) -> i < nreq c ->
  exists t, nth_error (requires pc) i = Some t /\
    match pm t with
    | Some (pi, gi) => sidx c i = gi /\ nth_error (nodes b) (src c i) = Some (NProv pi)
    | None => sidx c i = 0 /\ nth_error (nodes b) (src c i) = Some (NArg t)
    end.
Proof.
  intros c pc i Hc Hi. unfold nreq in Hi. destruct (nth_error (red b c) i) as [[m sx]|] eqn:E; [|apply nth_error_None in E; lia].
  destruct (i_res _ _ _ I c i m sx pc E Hc) as (t & Ht & Hm). exists t. split; auto.
  unfold sidx, src. rewrite (nth_error_nth _ _ _ E). simpl. exact Hm.
Qed.
Theorem arg_unique : forall n n' t, nth_error (nodes b) n = Some (NArg t) -> nth_error (nodes b) n' = Some (NArg t) -> n = n'.
Proof.
  intros n n' t H H'. apply (i_arg_an _ _ _ I) in H. apply (i_arg_an _ _ _ I) in H'.
  pose proof (i_an_nodup _ _ _ I) as ND. clear - H H' ND. induction (an b) as [|[k v] r IH]; [destruct H|]. simpl in ND. inversion ND; subst.
  destruct H as [H|H]; destruct H' as [H'|H'].
  - congruence.
  - inversion H; subst. exfalso. apply H2. apply (in_map fst) in H'. exact H'.
  - inversion H'; subst. exfalso. apply H2. apply (in_map fst) in H. exact H.
  - auto.
Qed.
Theorem prov_unique : forall n n' pi, n <> 0 -> n' <> 0 -> nth_error (nodes b) n = Some (NProv pi) -> nth_error (nodes b) n' = Some (NProv pi) -> n = n'.
Proof.
  intros n n' pi N N' H H'. apply (i_prov_pn _ _ _ I) in H; auto. apply (i_prov_pn _ _ _ I) in H'; auto.
  pose proof (i_pn_nodup _ _ _ I) as ND. clear - H H' ND. induction (pn b) as [|[k v] r IH]; [destruct H|]. simpl in ND. inversion ND; subst.
  destruct H as [H|H]; destruct H' as [H'|H'].
  - congruence.
  - inversion H; subst. exfalso. apply H2. apply (in_map fst) in H'. exact H'.
  - inversion H'; subst. exfalso. apply H2. apply (in_map fst) in H. exact H.
  - auto.
Qed.
Theorem arg_unsupplied : forall n t, nth_error (nodes b) n = Some (NArg t) -> pm t = None.
Proof. intros n t H. apply (i_arg_an _ _ _ I) in H. eapply (i_an_pm _ _ _ I); eauto. Qed.
End Final.
End BFS.

Print Assumptions outs_src.
Print Assumptions loop_inv.
