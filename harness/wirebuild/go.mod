module wirebuild

go 1.24.0

require (
	github.com/google/wire v0.7.0
	golang.org/x/tools v0.42.0
)
