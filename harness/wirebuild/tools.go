//go:build tools

package tools

import _ "github.com/google/wire/cmd/wire"
