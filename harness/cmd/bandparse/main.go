// bandparse: strict parser from a kessoku-generated *_band.go file to the observation format
// used by the static correspondence (DESIGN 4.1). It recognises exactly the statement shapes
// the generator emits; anything else is reported as an "unparsed" construct, which the
// harness treats as a correspondence failure.
package main

import (
	"bytes"
	"encoding/json"
	"fmt"
	"go/ast"
	"go/parser"
	"go/printer"
	"go/token"
	"os"
	"strconv"
	"strings"
)

type Param struct {
	Name string `json:"name"`
	Type string `json:"type"`
}

type VarSpec struct {
	Name string `json:"name"`
	Type string `json:"type,omitempty"`
	Chan bool   `json:"chan"`
}

type Op struct {
	Op     string   `json:"op"`
	Chans  []string `json:"chans,omitempty"`
	Ctx    bool     `json:"ctx,omitempty"`
	Form   string   `json:"form,omitempty"`
	ErrRet string   `json:"errret,omitempty"`
	Lhs    []string `json:"lhs,omitempty"`
	Define bool     `json:"define,omitempty"`
	Fn     string   `json:"fn,omitempty"`
	Prov   string   `json:"prov,omitempty"`
	Async  bool     `json:"async,omitempty"`
	Args   []string `json:"args,omitempty"`
	Err    string   `json:"err,omitempty"`
	Struct string   `json:"struct,omitempty"`
	Field  string   `json:"field,omitempty"`
	Exprs  []string `json:"exprs,omitempty"`
	Name   string   `json:"name,omitempty"`
	Type   string   `json:"type,omitempty"`
}

// names of the errgroup and context locals of the function being parsed
var curEg, curCtx = "eg", "ctx"

type Func struct {
	Name     string    `json:"name"`
	Params   []Param   `json:"params"`
	Results  []string  `json:"results"`
	Vars     []VarSpec `json:"vars"`
	HasVar   bool      `json:"has_var"`
	Eg       string    `json:"eg"` // "", "group", "ctx:<param>"
	EgName   string    `json:"eg_name"`  // local that holds the errgroup ("" when there is none)
	CtxName  string    `json:"ctx_name"` // local that holds the group's context
	CtxFresh bool      `json:"ctx_fresh"` // the context local is a new variable (not the parameter itself)
	Threads  [][]Op    `json:"threads"`
	Unparsed []string  `json:"unparsed"`
}

type Import struct {
	Name string `json:"name"`
	Path string `json:"path"`
}

type File struct {
	TopNames []string `json:"top_names"`
	Header  string   `json:"header"`
	Package string   `json:"package"`
	Imports []Import `json:"imports"`
	Funcs   []Func   `json:"funcs"`
	Error   string   `json:"error,omitempty"`
}

var fset = token.NewFileSet()

func str(n ast.Node) string {
	var b bytes.Buffer
	_ = printer.Fprint(&b, fset, n)
	return b.String()
}

func idents(es []ast.Expr) ([]string, bool) {
	out := make([]string, 0, len(es))
	for _, e := range es {
		id, ok := e.(*ast.Ident)
		if !ok {
			return nil, false
		}
		out = append(out, id.Name)
	}
	return out, true
}

// classify an error-return body: "zero" = `var zero T; return zero, E`; "plain" = `return E`; "nilerr" = `return nil, E`
func errRetForm(body []ast.Stmt) (string, string, bool) {
	switch len(body) {
	case 1:
		r, ok := body[0].(*ast.ReturnStmt)
		if !ok {
			return "", "", false
		}
		switch len(r.Results) {
		case 1:
			return "plain", str(r.Results[0]), true
		case 2:
			if id, ok := r.Results[0].(*ast.Ident); ok && id.Name == "nil" {
				return "nilerr", str(r.Results[1]), true
			}
		}
	case 2:
		d, ok := body[0].(*ast.DeclStmt)
		r, ok2 := body[1].(*ast.ReturnStmt)
		if !ok || !ok2 || len(r.Results) != 2 {
			return "", "", false
		}
		gd, ok := d.Decl.(*ast.GenDecl)
		if !ok || gd.Tok != token.VAR || len(gd.Specs) != 1 {
			return "", "", false
		}
		vs := gd.Specs[0].(*ast.ValueSpec)
		if len(vs.Names) != 1 || vs.Names[0].Name != "zero" || len(vs.Values) != 0 {
			return "", "", false
		}
		if id, ok := r.Results[0].(*ast.Ident); !ok || id.Name != "zero" {
			return "", "", false
		}
		return "zero:" + str(vs.Type), str(r.Results[1]), true
	}
	return "", "", false
}

// recv of a channel expression `<-x`
func recvOf(e ast.Expr) (ast.Expr, bool) {
	u, ok := e.(*ast.UnaryExpr)
	if !ok || u.Op != token.ARROW {
		return nil, false
	}
	return u.X, true
}

// a wait on one channel expression: plain receive or ctx-aware select. Returns (chan, ctx, errret, ok)
func waitStmt(s ast.Stmt) (string, bool, string, bool) {
	switch s := s.(type) {
	case *ast.ExprStmt:
		x, ok := recvOf(s.X)
		if !ok {
			return "", false, "", false
		}
		id, ok := x.(*ast.Ident)
		if !ok {
			return "", false, "", false
		}
		return id.Name, false, "", true
	case *ast.SelectStmt:
		if len(s.Body.List) != 2 {
			return "", false, "", false
		}
		c0, ok0 := s.Body.List[0].(*ast.CommClause)
		c1, ok1 := s.Body.List[1].(*ast.CommClause)
		if !ok0 || !ok1 || len(c0.Body) != 0 {
			return "", false, "", false
		}
		e0, ok := c0.Comm.(*ast.ExprStmt)
		if !ok {
			return "", false, "", false
		}
		x0, ok := recvOf(e0.X)
		if !ok {
			return "", false, "", false
		}
		id, ok := x0.(*ast.Ident)
		if !ok {
			return "", false, "", false
		}
		e1, ok := c1.Comm.(*ast.ExprStmt)
		if !ok {
			return "", false, "", false
		}
		x1, ok := recvOf(e1.X)
		if !ok || str(x1) != curCtx+".Done()" {
			return "", false, "", false
		}
		form, ee, ok := errRetForm(c1.Body)
		if !ok || ee != curCtx+".Err()" {
			return "", false, "", false
		}
		return id.Name, true, form, true
	}
	return "", false, "", false
}

// provider call expression: X.Fn()(args)
func provCall(e ast.Expr) (fn string, prov string, async bool, args []string, ok bool) {
	call, ok1 := e.(*ast.CallExpr)
	if !ok1 {
		return
	}
	inner, ok1 := call.Fun.(*ast.CallExpr)
	if !ok1 || len(inner.Args) != 0 {
		return
	}
	sel, ok1 := inner.Fun.(*ast.SelectorExpr)
	if !ok1 || sel.Sel.Name != "Fn" {
		return
	}
	args, ok1 = idents(call.Args)
	if !ok1 {
		return
	}
	fn = str(sel.X)
	// innermost identifier argument: the provider's function name (harness convention: unique per provider)
	prov = ""
	async = strings.Contains(fn, ".Async(")
	ast.Inspect(sel.X, func(n ast.Node) bool {
		if c, okc := n.(*ast.CallExpr); okc {
			if s, oks := c.Fun.(*ast.SelectorExpr); oks && (s.Sel.Name == "Provide" || s.Sel.Name == "Value") && len(c.Args) == 1 {
				prov = s.Sel.Name + ":" + str(c.Args[0])
			}
			if ix, oki := c.Fun.(*ast.IndexExpr); oki {
				if s, oks := ix.X.(*ast.SelectorExpr); oks && s.Sel.Name == "Provide" {
					prov = "Provide:" + str(c.Args[0])
				}
			}
		}
		return true
	})
	ok = true
	return
}

func parseStmts(list []ast.Stmt, inGo bool, f *Func, cur *[]Op, threads *[][]Op) {
	bad := func(s ast.Stmt) {
		f.Unparsed = append(f.Unparsed, fmt.Sprintf("%s: %s", fset.Position(s.Pos()), firstLine(str(s))))
	}
	for i := 0; i < len(list); i++ {
		s := list[i]
		switch s := s.(type) {
		case *ast.DeclStmt:
			gd, ok := s.Decl.(*ast.GenDecl)
			if !ok || gd.Tok != token.VAR {
				bad(s)
				continue
			}
			if !inGo && i == 0 && gd.Lparen.IsValid() {
				// the predeclaration block
				f.HasVar = true
				for _, sp := range gd.Specs {
					vs := sp.(*ast.ValueSpec)
					if len(vs.Names) != 1 {
						bad(s)
						continue
					}
					if len(vs.Values) == 1 && vs.Type == nil && str(vs.Values[0]) == "make(chan struct{})" {
						f.Vars = append(f.Vars, VarSpec{Name: vs.Names[0].Name, Chan: true})
					} else if len(vs.Values) == 0 && vs.Type != nil {
						f.Vars = append(f.Vars, VarSpec{Name: vs.Names[0].Name, Type: str(vs.Type)})
					} else {
						bad(s)
					}
				}
				continue
			}
			if len(gd.Specs) == 1 {
				vs := gd.Specs[0].(*ast.ValueSpec)
				if len(vs.Names) == 1 && len(vs.Values) == 0 && vs.Type != nil {
					*cur = append(*cur, Op{Op: "vardecl", Name: vs.Names[0].Name, Type: str(vs.Type)})
					continue
				}
			}
			bad(s)
		case *ast.AssignStmt:
			lhs, ok := idents(s.Lhs)
			if !ok || len(s.Rhs) != 1 {
				bad(s)
				continue
			}
			rhs := str(s.Rhs[0])
			// errgroup declarations
			if !inGo && s.Tok == token.DEFINE && len(lhs) == 2 && f.Eg == "" && strings.HasSuffix(strings.SplitN(rhs, "(", 2)[0], ".WithContext") {
				c := s.Rhs[0].(*ast.CallExpr)
				a, ok := idents(c.Args)
				if !ok || len(a) != 1 {
					bad(s)
					continue
				}
				f.Eg = "ctx:" + a[0] + ":" + strings.TrimSuffix(strings.SplitN(rhs, "(", 2)[0], ".WithContext")
				curEg, curCtx = lhs[0], lhs[1]
				f.EgName, f.CtxName, f.CtxFresh = lhs[0], lhs[1], lhs[1] != a[0]
				continue
			}
			if !inGo && s.Tok == token.DEFINE && len(lhs) == 1 && f.Eg == "" && strings.HasPrefix(rhs, "&") && strings.HasSuffix(rhs, ".Group{}") {
				f.Eg = "group:" + strings.TrimSuffix(strings.TrimPrefix(rhs, "&"), ".Group{}")
				curEg = lhs[0]
				f.EgName = lhs[0]
				continue
			}
			if len(lhs) == 1 && lhs[0] == "_" && s.Tok == token.ASSIGN && rhs == curEg+".Wait()" {
				*cur = append(*cur, Op{Op: "egwait", Form: "discard"})
				continue
			}
			// field read
			if sel, ok := s.Rhs[0].(*ast.SelectorExpr); ok && len(lhs) == 1 {
				if x, ok := sel.X.(*ast.Ident); ok {
					*cur = append(*cur, Op{Op: "field", Lhs: lhs, Define: s.Tok == token.DEFINE, Struct: x.Name, Field: sel.Sel.Name})
					continue
				}
			}
			fn, prov, async, args, ok := provCall(s.Rhs[0])
			if !ok {
				bad(s)
				continue
			}
			op := Op{Op: "call", Lhs: lhs, Define: s.Tok == token.DEFINE, Fn: fn, Prov: prov, Async: async, Args: args}
			// optional error check right after
			if i+1 < len(list) {
				switch n := list[i+1].(type) {
				case *ast.IfStmt:
					if n.Init == nil && n.Else == nil {
						if be, ok := n.Cond.(*ast.BinaryExpr); ok && be.Op == token.NEQ && str(be.Y) == "nil" {
							if id, ok := be.X.(*ast.Ident); ok && contains(lhs, id.Name) { // the error stands where the provider returns it (usually last)
								form, ee, ok := errRetForm(n.Body.List)
								if ok && ee == id.Name {
									op.Err = id.Name
									op.ErrRet = form
									i++
								}
							}
						}
					}
				case *ast.EmptyStmt:
					// fallible call without an error continuation (injector has no error result): `;`
					op.Err = lhs[len(lhs)-1]
					op.ErrRet = "ignored"
					i++
				}
			}
			*cur = append(*cur, op)
		case *ast.ExprStmt:
			// plain wait
			if ch, ctx, form, ok := waitStmt(s); ok {
				*cur = append(*cur, Op{Op: "wait", Chans: []string{ch}, Ctx: ctx, Form: "single", ErrRet: form})
				continue
			}
			if c, ok := s.X.(*ast.CallExpr); ok {
				if id, ok := c.Fun.(*ast.Ident); ok && id.Name == "close" && len(c.Args) == 1 {
					if a, ok := c.Args[0].(*ast.Ident); ok {
						*cur = append(*cur, Op{Op: "close", Chans: []string{a.Name}, Form: "single"})
						continue
					}
				}
				if str(c.Fun) == curEg+".Go" && len(c.Args) == 1 && !inGo {
					if fl, ok := c.Args[0].(*ast.FuncLit); ok && fl.Type.Params.NumFields() == 0 && fl.Type.Results.NumFields() == 1 && str(fl.Type.Results.List[0].Type) == "error" {
						body := fl.Body.List
						if n := len(body); n > 0 {
							if r, ok := body[n-1].(*ast.ReturnStmt); ok && len(r.Results) == 1 && str(r.Results[0]) == "nil" {
								th := []Op{}
								parseStmts(body[:n-1], true, f, &th, threads)
								*threads = append(*threads, th)
								*cur = append(*cur, Op{Op: "go", Name: strconv.Itoa(len(*threads))})
								continue
							}
						}
					}
				}
			}
			bad(s)
		case *ast.SelectStmt:
			if ch, ctx, form, ok := waitStmt(s); ok {
				*cur = append(*cur, Op{Op: "wait", Chans: []string{ch}, Ctx: ctx, Form: "single", ErrRet: form})
				continue
			}
			bad(s)
		case *ast.RangeStmt:
			// for _, ch := range []<-chan struct{}{a, b} { wait(ch) }   |   for _, ch := range []chan<- struct{}{a, b} { close(ch) }
			k, ok1 := s.Key.(*ast.Ident)
			v, ok2 := s.Value.(*ast.Ident)
			cl, ok3 := s.X.(*ast.CompositeLit)
			if !ok1 || !ok2 || !ok3 || k.Name != "_" || v.Name != "ch" || s.Tok != token.DEFINE || len(s.Body.List) != 1 {
				bad(s)
				continue
			}
			chs, ok := idents(cl.Elts)
			if !ok {
				bad(s)
				continue
			}
			switch str(cl.Type) {
			case "[]<-chan struct{}":
				ch, ctx, form, ok := waitStmt(s.Body.List[0])
				if !ok || ch != "ch" {
					bad(s)
					continue
				}
				*cur = append(*cur, Op{Op: "wait", Chans: chs, Ctx: ctx, Form: "range", ErrRet: form})
			case "[]chan<- struct{}":
				if str(s.Body.List[0]) != "close(ch)" {
					bad(s)
					continue
				}
				*cur = append(*cur, Op{Op: "close", Chans: chs, Form: "range"})
			default:
				bad(s)
			}
		case *ast.IfStmt:
			// if err := eg.Wait(); err != nil { return nil, err }
			if as, ok := s.Init.(*ast.AssignStmt); ok && !inGo && str(as) == "err := "+curEg+".Wait()" && str(s.Cond) == "err != nil" && s.Else == nil {
				form, ee, ok := errRetForm(s.Body.List)
				if ok && ee == "err" {
					*cur = append(*cur, Op{Op: "egwait", Form: "if", ErrRet: form})
					continue
				}
			}
			bad(s)
		case *ast.ReturnStmt:
			ex := make([]string, 0, len(s.Results))
			for _, r := range s.Results {
				ex = append(ex, str(r))
			}
			*cur = append(*cur, Op{Op: "ret", Exprs: ex})
		default:
			bad(s)
		}
	}
}

func firstLine(s string) string {
	if i := strings.IndexByte(s, '\n'); i >= 0 {
		return s[:i] + " …"
	}
	return s
}

func main() {
	if len(os.Args) < 2 {
		fmt.Fprintln(os.Stderr, "usage: bandparse file_band.go ...")
		os.Exit(2)
	}
	out := map[string]*File{}
	for _, path := range os.Args[1:] {
		res := &File{Funcs: []Func{}, Imports: []Import{}}
		out[path] = res
		src, err := os.ReadFile(path)
		if err != nil {
			res.Error = err.Error()
			continue
		}
		if i := bytes.IndexByte(src, '\n'); i >= 0 {
			res.Header = string(src[:i])
		}
		file, err := parser.ParseFile(fset, path, src, parser.ParseComments)
		if err != nil {
			res.Error = err.Error()
			continue
		}
		res.Package = file.Name.Name
		for _, im := range file.Imports {
			p, _ := strconv.Unquote(im.Path.Value)
			n := ""
			if im.Name != nil {
				n = im.Name.Name
			}
			res.Imports = append(res.Imports, Import{Name: n, Path: p})
		}
		for _, d := range file.Decls {
			switch d := d.(type) {
			case *ast.FuncDecl:
				if d.Recv == nil {
					res.TopNames = append(res.TopNames, d.Name.Name)
				}
			case *ast.GenDecl:
				for _, sp := range d.Specs {
					switch sp := sp.(type) {
					case *ast.TypeSpec:
						res.TopNames = append(res.TopNames, sp.Name.Name)
					case *ast.ValueSpec:
						for _, n := range sp.Names {
							res.TopNames = append(res.TopNames, n.Name)
						}
					}
				}
			}
		}
		if !strings.HasSuffix(path, "_band.go") {
			continue
		}
		for _, d := range file.Decls {
			fd, ok := d.(*ast.FuncDecl)
			if !ok {
				if gd, ok := d.(*ast.GenDecl); ok && gd.Tok == token.IMPORT {
					continue
				}
				res.Error = "unexpected top-level declaration: " + firstLine(str(d))
				continue
			}
			f := Func{Name: fd.Name.Name, Params: []Param{}, Results: []string{}, Vars: []VarSpec{}, Unparsed: []string{}}
			curEg, curCtx = "eg", "ctx"
			if fd.Recv != nil || fd.Type.TypeParams != nil {
				f.Unparsed = append(f.Unparsed, "receiver or type parameters")
			}
			if fd.Type.Params != nil {
				for _, p := range fd.Type.Params.List {
					if len(p.Names) == 0 {
						f.Params = append(f.Params, Param{Name: "", Type: str(p.Type)})
					}
					for _, n := range p.Names {
						f.Params = append(f.Params, Param{Name: n.Name, Type: str(p.Type)})
					}
				}
			}
			if fd.Type.Results != nil {
				for _, r := range fd.Type.Results.List {
					if len(r.Names) != 0 {
						f.Unparsed = append(f.Unparsed, "named result")
					}
					f.Results = append(f.Results, str(r.Type))
				}
			}
			main := []Op{}
			gos := [][]Op{}
			parseStmts(fd.Body.List, false, &f, &main, &gos)
			f.Threads = append([][]Op{main}, gos...)
			res.Funcs = append(res.Funcs, f)
		}
	}
	enc := json.NewEncoder(os.Stdout)
	enc.SetIndent("", " ")
	_ = enc.Encode(out)
}

func contains(l []string, x string) bool {
	for _, y := range l {
		if y == x {
			return true
		}
	}
	return false
}
