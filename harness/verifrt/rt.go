// Package verifrt is the runtime linked into rendered scratch packages: instrumented providers report
// enter/exit events with the symbolic terms of their arguments, block on scripted gates (forced schedules),
// fail on demand, and the driver cancels the caller's context at scripted points (DESIGN 4.2).
package verifrt

import (
	"context"
	"errors"
	"fmt"
	"math/rand"
	"reflect"
	"runtime"
	"strings"
	"sync"
	"time"
)

type Event struct {
	Seq  int      `json:"seq"`
	Kind string   `json:"kind"` // enter | exit | fail | cancel | gate-timeout | returned
	Fn   string   `json:"fn,omitempty"`
	Args []string `json:"args,omitempty"`
}

// Cond: "an event of this kind for this provider has been logged"
type Cond struct {
	Kind string `json:"kind"`
	Fn   string `json:"fn"`
}

type Scenario struct {
	ID       string            `json:"id"`
	Inj      string            `json:"inj"`
	Kind     string            `json:"kind"`
	Fail     []string          `json:"fail,omitempty"`     // providers that return an error
	Gates    map[string][]Cond `json:"gates,omitempty"`    // provider -> conditions awaited inside the provider
	Barrier  []string          `json:"barrier,omitempty"`  // providers that wait inside until all of them are inside
	CancelOn *Cond             `json:"cancel_on,omitempty"` // {before,""} | {enter,fn} | {exit,fn} | {fail,fn}
	Seed     int64             `json:"seed"`
	MaxDelay int               `json:"max_delay_us"`
	GateMs   int               `json:"gate_ms"`
	Procs    int               `json:"procs,omitempty"`
}

type ProvErr struct{ Fn string }

func (e *ProvErr) Error() string { return "provider failed: " + e.Fn }

type Run struct {
	mu       sync.Mutex
	cond     *sync.Cond
	sc       *Scenario
	events   []Event
	released bool
	cancel   context.CancelFunc
	rnd      *rand.Rand
	fail     map[string]bool
	barrier  map[string]bool
	inside   map[string]bool
}

var (
	curMu sync.Mutex
	cur   *Run
)

func NewRun(sc *Scenario, cancel context.CancelFunc) *Run {
	r := &Run{sc: sc, cancel: cancel, rnd: rand.New(rand.NewSource(sc.Seed)), fail: map[string]bool{}, barrier: map[string]bool{}, inside: map[string]bool{}}
	r.cond = sync.NewCond(&r.mu)
	for _, f := range sc.Fail {
		r.fail[f] = true
	}
	for _, f := range sc.Barrier {
		r.barrier[f] = true
	}
	curMu.Lock()
	cur = r
	curMu.Unlock()
	return r
}

func (r *Run) log(kind, fn string, args []string) {
	// caller holds r.mu
	r.events = append(r.events, Event{Seq: len(r.events), Kind: kind, Fn: fn, Args: args})
	if c := r.sc.CancelOn; c != nil && c.Kind == kind && c.Fn == fn && r.cancel != nil {
		r.events = append(r.events, Event{Seq: len(r.events), Kind: "cancel"})
		r.cancel()
	}
	r.cond.Broadcast()
}

func (r *Run) Log(kind string) {
	r.mu.Lock()
	r.log(kind, "", nil)
	r.mu.Unlock()
}

func (r *Run) happened(c Cond) bool {
	for _, e := range r.events {
		if e.Kind == c.Kind && e.Fn == c.Fn {
			return true
		}
	}
	return false
}

func (r *Run) Events() []Event {
	r.mu.Lock()
	defer r.mu.Unlock()
	out := make([]Event, len(r.events))
	copy(out, r.events)
	return out
}

// ReleaseAll opens every gate (called by the driver once the injector has returned or the deadline expired).
func (r *Run) ReleaseAll() {
	r.mu.Lock()
	r.released = true
	r.cond.Broadcast()
	r.mu.Unlock()
}

type Handle struct {
	r    *Run
	fn   string
	args []string
}

func Enter(fn string, args []string) *Handle {
	curMu.Lock()
	r := cur
	curMu.Unlock()
	h := &Handle{r: r, fn: fn, args: args}
	if r == nil {
		return h
	}
	r.mu.Lock()
	r.inside[fn] = true
	r.log("enter", fn, args)
	r.mu.Unlock()
	return h
}

// waitUntil blocks until pred holds, the run is released, or the gate deadline passes. Caller holds r.mu.
func (r *Run) waitUntil(fn string, pred func() bool) {
	ms := r.sc.GateMs
	if ms <= 0 {
		ms = 400
	}
	deadline := time.Now().Add(time.Duration(ms) * time.Millisecond)
	timer := time.AfterFunc(time.Duration(ms)*time.Millisecond, func() {
		r.mu.Lock()
		r.cond.Broadcast()
		r.mu.Unlock()
	})
	defer timer.Stop()
	for !pred() && !r.released {
		if !time.Now().Before(deadline) {
			r.events = append(r.events, Event{Seq: len(r.events), Kind: "gate-timeout", Fn: fn})
			return
		}
		r.cond.Wait()
	}
}

// Exit applies the scripted latency, gates and barrier, then decides the provider's outcome.
func (h *Handle) Exit(fallible bool) error {
	r := h.r
	if r == nil {
		return nil
	}
	r.mu.Lock()
	d := 0
	if r.sc.MaxDelay > 0 {
		d = r.rnd.Intn(r.sc.MaxDelay + 1)
	}
	r.mu.Unlock()
	if d > 0 {
		if d < 20 {
			runtime.Gosched()
		} else {
			time.Sleep(time.Duration(d) * time.Microsecond)
		}
	}
	r.mu.Lock()
	defer r.mu.Unlock()
	if r.barrier[h.fn] {
		r.waitUntil(h.fn, func() bool {
			for f := range r.barrier {
				if !r.inside[f] {
					return false
				}
			}
			return true
		})
	}
	if conds, ok := r.sc.Gates[h.fn]; ok {
		r.waitUntil(h.fn, func() bool {
			for _, c := range conds {
				if !r.happened(c) {
					return false
				}
			}
			return true
		})
	}
	if fallible && r.fail[h.fn] {
		r.log("fail", h.fn, nil)
		return &ProvErr{Fn: h.fn}
	}
	r.log("exit", h.fn, h.args)
	return nil
}

// ExitCtx is Exit for a provider that takes a context: like real context-aware code it gives up with ctx.Err() when its
// context is already cancelled at the time it would return.
func (h *Handle) ExitCtx(ctx context.Context, fallible bool) error {
	err := h.Exit(fallible)
	if err == nil && fallible && ctx != nil && ctx.Err() != nil && h.r != nil {
		h.r.mu.Lock()
		// the exit event was already logged; record that the provider reported the cancellation instead
		h.r.events = append(h.r.events, Event{Seq: len(h.r.events), Kind: "ctxfail", Fn: h.fn})
		h.r.mu.Unlock()
		return ctx.Err()
	}
	return err
}

func (h *Handle) Term(gi int) string {
	return fmt.Sprintf("%s(%s)#%d", h.fn, strings.Join(h.args, ","), gi)
}

// TermOf renders an injector result.
func TermOf(v any) string {
	if v == nil {
		return "<nil>"
	}
	rv := reflect.ValueOf(v)
	if rv.Kind() == reflect.Pointer && rv.IsNil() {
		return "<nil>"
	}
	if t, ok := v.(interface{ Term() string }); ok {
		s := t.Term()
		if s == "" {
			return "<zero>"
		}
		return s
	}
	return fmt.Sprintf("<?%T>", v)
}

func ErrClass(err error) string {
	if err == nil {
		return ""
	}
	var pe *ProvErr
	if errors.As(err, &pe) {
		return "prov:" + pe.Fn
	}
	if errors.Is(err, context.Canceled) {
		return "canceled"
	}
	if errors.Is(err, context.DeadlineExceeded) {
		return "deadline"
	}
	return "other:" + err.Error()
}

type Result struct {
	ID       string  `json:"id"`
	Inj      string  `json:"inj"`
	Kind     string  `json:"kind"`
	Returned bool    `json:"returned"`
	Value    string  `json:"value"`
	Err      string  `json:"err"`
	Events   []Event `json:"events"`
	Leaked   int     `json:"leaked"`
	LeakInfo string  `json:"leak_info,omitempty"`
	LeakWait []string `json:"leak_wait,omitempty"`
	Panic    string  `json:"panic,omitempty"`
	Ms       float64 `json:"ms"`
}

// goroutines (other than the caller's) whose stack mentions the generated injector function
// goroutines whose stack mentions the generated injector function: id -> "goroutine:<wait state>" | "caller:<wait state>"
func leakedGoroutines(inj string) (map[string]string, map[string]string) {
	buf := make([]byte, 1<<20)
	n := runtime.Stack(buf, true)
	states := map[string]string{}
	infos := map[string]string{}
	for _, g := range strings.Split(string(buf[:n]), "\n\n") {
		if !strings.Contains(g, "main."+inj+".func") && !strings.Contains(g, "main."+inj+"(") {
			continue
		}
		id := ""
		if strings.HasPrefix(g, "goroutine ") {
			rest := g[len("goroutine "):]
			if sp := strings.Index(rest, " "); sp > 0 {
				id = rest[:sp]
			}
		}
		st := "?"
		if a := strings.Index(g, "["); a >= 0 {
			if b := strings.Index(g[a:], "]"); b > 0 {
				st = g[a+1 : a+b]
				if c := strings.Index(st, ","); c > 0 {
					st = st[:c]
				}
			}
		}
		where := "goroutine"
		if strings.Contains(g, "main."+inj+"(") {
			where = "caller"
		}
		states[id] = where + ":" + st
		lines := strings.Split(g, "\n")
		if len(lines) > 6 {
			lines = lines[:6]
		}
		infos[id] = strings.Join(lines, " | ")
	}
	return states, infos
}

// Execute runs one scenario: call invokes the injector with the (cancellable) context.
func Execute(sc *Scenario, call func(ctx context.Context) (any, error), hasResultErr bool) Result {
	if sc.Procs > 0 {
		runtime.GOMAXPROCS(sc.Procs)
	}
	ctx, cancel := context.WithCancel(context.Background())
	defer cancel()
	r := NewRun(sc, cancel)
	res := Result{ID: sc.ID, Inj: sc.Inj, Kind: sc.Kind}
	baseline, _ := leakedGoroutines(sc.Inj) // goroutines left over by earlier scenarios of the same injector
	if sc.CancelOn != nil && sc.CancelOn.Kind == "before" {
		r.mu.Lock()
		r.events = append(r.events, Event{Seq: 0, Kind: "cancel"})
		r.mu.Unlock()
		cancel()
	}
	type out struct {
		v   any
		err error
		pan string
	}
	done := make(chan out, 1)
	start := time.Now()
	go func() {
		var o out
		defer func() {
			if p := recover(); p != nil {
				o.pan = fmt.Sprint(p)
			}
			done <- o
		}()
		o.v, o.err = call(ctx)
	}()
	select {
	case o := <-done:
		r.Log("returned")
		res.Returned = true
		res.Value = TermOf(o.v)
		res.Err = ErrClass(o.err)
		res.Panic = o.pan
	case <-time.After(2 * time.Second):
		res.Returned = false
	}
	res.Ms = float64(time.Since(start).Microseconds()) / 1000
	r.ReleaseAll()
	// grace period, then look for goroutines still inside the generated function
	for _, wait := range []int{20, 80, 250} {
		time.Sleep(time.Duration(wait) * time.Millisecond)
		now, infos := leakedGoroutines(sc.Inj)
		res.Leaked, res.LeakInfo, res.LeakWait = 0, "", nil
		for id, st := range now {
			if _, old := baseline[id]; old {
				continue
			}
			if !res.Returned && strings.HasPrefix(st, "caller:") {
				continue // the hung caller itself
			}
			res.Leaked++
			res.LeakWait = append(res.LeakWait, st)
			if res.LeakInfo == "" {
				res.LeakInfo = infos[id]
			}
		}
		if res.Leaked <= 0 {
			res.Leaked = 0
			break
		}
	}
	res.Events = r.Events()
	return res
}
