module verifharness

go 1.24
