// Census of the places where a run of the generator could depend on anything but its input: iteration over maps
// (range, maps.Keys/Values/All, reflect map iteration), goroutines and select, clocks, random numbers, process and
// environment data, pointer formatting. Built inside /repo's module with go build -overlay; /repo is not changed.
package main

import (
	"bytes"
	"crypto/sha256"
	"encoding/json"
	"fmt"
	"go/ast"
	"go/printer"
	"go/token"
	"go/types"
	"os"
	"path/filepath"
	"sort"
	"strings"

	"golang.org/x/tools/go/packages"
)

type site struct {
	Next   string `json:"next"`
	Header string `json:"header"`
	Kind   string `json:"kind"`
	Pkg    string `json:"pkg"`
	File   string `json:"file"`
	Func   string `json:"func"`
	Line   int    `json:"line"`
	What   string `json:"what"`
	Source string `json:"source"`
	Hash   string `json:"hash"`
	HashN  string `json:"hash_with_next"`
	Auto   string `json:"auto"`
}

func src(fset *token.FileSet, n ast.Node) string {
	var b bytes.Buffer
	_ = (&printer.Config{Mode: printer.RawFormat}).Fprint(&b, token.NewFileSet(), n)
	return strings.Join(strings.Fields(b.String()), " ")
}

func main() {
	root := os.Args[1]
	cfg := &packages.Config{Mode: packages.NeedName | packages.NeedFiles | packages.NeedSyntax | packages.NeedTypes | packages.NeedTypesInfo | packages.NeedImports, Dir: root, Tests: false}
	pkgs, err := packages.Load(cfg, os.Args[2:]...)
	if err != nil {
		fmt.Fprintln(os.Stderr, err)
		os.Exit(2)
	}
	var out []site
	for _, p := range pkgs {
		if len(p.Errors) > 0 {
			fmt.Fprintln(os.Stderr, p.Errors)
			os.Exit(2)
		}
		for _, f := range p.Syntax {
			fname, _ := filepath.Rel(root, p.Fset.Position(f.Pos()).Filename)
			for _, d := range f.Decls {
				fd, ok := d.(*ast.FuncDecl)
				name := "(package level)"
				if ok {
					name = fd.Name.Name
					if fd.Recv != nil && len(fd.Recv.List) > 0 {
						name = src(p.Fset, fd.Recv.List[0].Type) + "." + name
					}
				}
				// the statement that follows a loop in its block belongs to what is reviewed (the sort after a collecting loop)
				next := map[ast.Node]string{}
				ast.Inspect(d, func(n ast.Node) bool {
					var list []ast.Stmt
					switch b := n.(type) {
					case *ast.BlockStmt:
						list = b.List
					case *ast.CaseClause:
						list = b.Body
					case *ast.CommClause:
						list = b.Body
					}
					for i := 0; i+1 < len(list); i++ {
						next[list[i]] = src(p.Fset, list[i+1])
					}
					return true
				})
				add := func(kind string, n ast.Node, what string, auto string) {
					s := src(p.Fset, n)
					hdr := ""
					if r, ok := n.(*ast.RangeStmt); ok {
						hdr = strings.TrimSpace(strings.SplitN(s, "{", 2)[0])
						_ = r
					}
					h := sha256.Sum256([]byte(kind + "|" + p.PkgPath + "|" + name + "|" + s))
					hn := sha256.Sum256([]byte(kind + "|" + p.PkgPath + "|" + name + "|" + s + "|" + next[n]))
					out = append(out, site{HashN: fmt.Sprintf("%x", hn[:8]), Kind: kind, Pkg: p.PkgPath, File: fname, Func: name, Line: p.Fset.Position(n.Pos()).Line, What: what, Source: s, Next: next[n], Header: hdr, Hash: fmt.Sprintf("%x", h[:8]), Auto: auto})
				}
				ast.Inspect(d, func(n ast.Node) bool {
					switch x := n.(type) {
					case *ast.RangeStmt:
						if tv, ok := p.TypesInfo.Types[x.X]; ok {
							if _, isMap := tv.Type.Underlying().(*types.Map); isMap {
								add("map-range", x, src(p.Fset, x.X)+" : "+tv.Type.String(), classify(x))
							}
						}
					case *ast.GoStmt:
						add("go", x, "go statement", "")
					case *ast.SelectStmt:
						add("select", x, "select statement", "")
					case *ast.SelectorExpr:
						if id, ok := x.X.(*ast.Ident); ok {
							if pn, ok := p.TypesInfo.Uses[id].(*types.PkgName); ok {
								q := pn.Imported().Path() + "." + x.Sel.Name
								switch {
								case pn.Imported().Path() == "maps" && (x.Sel.Name == "Keys" || x.Sel.Name == "Values" || x.Sel.Name == "All"),
									pn.Imported().Path() == "golang.org/x/exp/maps",
									pn.Imported().Path() == "math/rand", pn.Imported().Path() == "math/rand/v2", pn.Imported().Path() == "crypto/rand",
									q == "time.Now", q == "time.Since", q == "time.Until", q == "time.After", q == "time.Tick", q == "time.NewTimer", q == "time.NewTicker", q == "time.Sleep",
									q == "os.Getpid", q == "os.Getppid", q == "os.Getenv", q == "os.LookupEnv", q == "os.Environ", q == "os.Hostname", q == "os.Getuid", q == "os.TempDir", q == "os.MkdirTemp", q == "os.CreateTemp", q == "os.UserHomeDir", q == "os.Getwd", q == "os.Executable",
									q == "runtime.NumCPU", q == "runtime.GOMAXPROCS", q == "runtime.NumGoroutine",
									pn.Imported().Path() == "unsafe" && x.Sel.Name != "Pointer",
									pn.Imported().Path() == "sync" || pn.Imported().Path() == "sync/atomic":
									add("ambient", x, q, "")
								}
							}
						}
						if sel, ok := p.TypesInfo.Selections[x]; ok {
							if fn, ok := sel.Obj().(*types.Func); ok && fn.Pkg() != nil && fn.Pkg().Path() == "reflect" && (fn.Name() == "MapKeys" || fn.Name() == "MapRange") {
								add("ambient", x, "reflect."+fn.Name(), "")
							}
							// typeutil.Map hands its entries out in an unspecified order
							if fn, ok := sel.Obj().(*types.Func); ok && fn.Pkg() != nil && fn.Pkg().Path() == "golang.org/x/tools/go/types/typeutil" && (fn.Name() == "Iterate" || fn.Name() == "Keys" || fn.Name() == "KeysString" || fn.Name() == "String") {
								add("ambient", x, "typeutil.Map."+fn.Name(), "")
							}
						}
					case *ast.BasicLit:
						if x.Kind == token.STRING && strings.Contains(x.Value, "%p") {
							add("ambient", x, "%p in a format string", "")
						}
					}
					return true
				})
			}
		}
	}
	sort.Slice(out, func(i, j int) bool {
		if out[i].File != out[j].File {
			return out[i].File < out[j].File
		}
		return out[i].Line < out[j].Line
	})
	enc := json.NewEncoder(os.Stdout)
	enc.SetIndent("", " ")
	_ = enc.Encode(out)
}

// classify looks at the statements of a map-range body (syntactically, conservatively).
func classify(r *ast.RangeStmt) string {
	early := false
	ast.Inspect(r.Body, func(n ast.Node) bool {
		switch x := n.(type) {
		case *ast.FuncLit:
			return false
		case *ast.ReturnStmt:
			early = true
		case *ast.BranchStmt:
			if x.Tok == token.BREAK || x.Tok == token.GOTO {
				early = true
			}
		}
		return true
	})
	if early {
		return "early-exit"
	}
	return "full-traversal"
}
