// Injected with `go build -overlay` as /repo/cmd/veriftyperender/main.go: runs the real createASTTypeExpr on the types
// of the variables V0, V1, ... of type-checked source snippets and prints type and spelling as trees.
package main

import (
	"encoding/json"
	"fmt"
	"go/ast"
	"go/importer"
	"go/parser"
	"go/token"
	"go/types"
	"os"
	"sort"
	"strconv"

	"github.com/mazrean/kessoku/internal/kessoku"
	"github.com/mazrean/kessoku/internal/migrate"
)

type node = []any

func tyTree(t types.Type) node {
	switch x := t.(type) {
	case *types.Basic:
		return node{"basic", x.Name()}
	case *types.Pointer:
		return node{"ptr", tyTree(x.Elem())}
	case *types.Named:
		return named(x.Obj(), x.TypeArgs())
	case *types.Alias:
		return named(x.Obj(), x.TypeArgs())
	case *types.Slice:
		return node{"slice", tyTree(x.Elem())}
	case *types.Array:
		return node{"array", x.Len(), tyTree(x.Elem())}
	case *types.Map:
		return node{"map", tyTree(x.Key()), tyTree(x.Elem())}
	case *types.Chan:
		d := map[types.ChanDir]string{types.SendRecv: "both", types.SendOnly: "send", types.RecvOnly: "recv"}[x.Dir()]
		return node{"chan", d, tyTree(x.Elem())}
	case *types.Signature:
		ps, rs := []any{}, []any{}
		for i := 0; i < x.Params().Len(); i++ {
			ps = append(ps, tyTree(x.Params().At(i).Type()))
		}
		for i := 0; i < x.Results().Len(); i++ {
			rs = append(rs, tyTree(x.Results().At(i).Type()))
		}
		return node{"func", ps, x.Variadic(), rs}
	case *types.Struct:
		fs := []any{}
		for i := 0; i < x.NumFields(); i++ {
			fs = append(fs, node{x.Field(i).Name(), x.Field(i).Embedded(), x.Tag(i), tyTree(x.Field(i).Type())})
		}
		return node{"struct", fs}
	case *types.Interface:
		ms := []any{}
		for m := range x.Methods() {
			ms = append(ms, node{m.Name(), tyTree(m.Type())})
		}
		return node{"iface", ms}
	}
	return node{"other", t.String()}
}

func named(obj *types.TypeName, targs *types.TypeList) node {
	p := ""
	if obj.Pkg() != nil {
		p = obj.Pkg().Path()
	}
	as := []any{}
	for i := 0; i < targs.Len(); i++ {
		as = append(as, tyTree(targs.At(i)))
	}
	return node{"named", p, obj.Name(), as}
}

func fields(fl *ast.FieldList) []any {
	out := []any{}
	if fl == nil {
		return out
	}
	for _, f := range fl.List {
		names := []any{}
		for _, n := range f.Names {
			names = append(names, n.Name)
		}
		tag := ""
		if f.Tag != nil {
			tag, _ = strconv.Unquote(f.Tag.Value)
		}
		out = append(out, node{names, tag, exTree(f.Type)})
	}
	return out
}

func exTree(e ast.Expr) node {
	switch x := e.(type) {
	case *ast.ParenExpr:
		return exTree(x.X) // grouping only: chan (<-chan T)
	case *ast.Ident:
		return node{"id", x.Name}
	case *ast.SelectorExpr:
		if id, ok := x.X.(*ast.Ident); ok {
			return node{"sel", id.Name, x.Sel.Name}
		}
	case *ast.StarExpr:
		return node{"star", exTree(x.X)}
	case *ast.ArrayType:
		if x.Len == nil {
			return node{"arr", nil, exTree(x.Elt)}
		}
		if bl, ok := x.Len.(*ast.BasicLit); ok {
			n, _ := strconv.ParseInt(bl.Value, 10, 64)
			return node{"arr", n, exTree(x.Elt)}
		}
	case *ast.MapType:
		return node{"map", exTree(x.Key), exTree(x.Value)}
	case *ast.ChanType:
		d := "both"
		if x.Dir == ast.SEND {
			d = "send"
		} else if x.Dir == ast.RECV {
			d = "recv"
		}
		return node{"chan", d, exTree(x.Value)}
	case *ast.Ellipsis:
		return node{"ellipsis", exTree(x.Elt)}
	case *ast.FuncType:
		return node{"func", fields(x.Params), fields(x.Results)}
	case *ast.StructType:
		return node{"struct", fields(x.Fields)}
	case *ast.InterfaceType:
		return node{"iface", fields(x.Methods)}
	case *ast.IndexExpr:
		return node{"index", exTree(x.X), []any{exTree(x.Index)}}
	case *ast.IndexListExpr:
		as := []any{}
		for _, a := range x.Indices {
			as = append(as, exTree(a))
		}
		return node{"index", exTree(x.X), as}
	}
	return node{"other", fmt.Sprintf("%T", e)}
}

type result struct {
	Error   string           `json:"error,omitempty"`
	Vars    []map[string]any `json:"vars"`
}

func lastElem(path string) string {
	for i := len(path) - 1; i >= 0; i-- {
		if path[i] == '/' {
			return path[i+1:]
		}
	}
	return path
}

func main() {
	// usage: veriftyperender [migrate]   (which of the two type-spelling functions is driven)
	useMigrate := len(os.Args) > 1 && os.Args[1] == "migrate"
	var srcs []string
	if err := json.NewDecoder(os.Stdin).Decode(&srcs); err != nil {
		panic(err)
	}
	fset := token.NewFileSet()
	imp := importer.ForCompiler(fset, "source", nil)
	out := []result{}
	for _, src := range srcs {
		var r result
		f, err := parser.ParseFile(fset, "p.go", src, 0)
		if err != nil {
			r.Error = err.Error()
			out = append(out, r)
			continue
		}
		conf := types.Config{Importer: imp}
		pkg, err := conf.Check("example.com/p", fset, []*ast.File{f}, nil)
		if err != nil {
			r.Error = err.Error()
			out = append(out, r)
			continue
		}
		names := []string{}
		for _, n := range pkg.Scope().Names() {
			if _, ok := pkg.Scope().Lookup(n).(*types.Var); ok {
				names = append(names, n)
			}
		}
		sort.Strings(names)
		for _, n := range names {
			t := pkg.Scope().Lookup(n).Type()
			v := map[string]any{"name": n, "type": tyTree(t)}
			if useMigrate {
				tc := migrate.NewTypeConverter(pkg)
				e := tc.TypeToExpr(t)
				v["expr"] = exTree(e)
				al := map[string]string{}
				for _, sp := range tc.Imports() {
					if sp.Name != "" {
						al[sp.Path] = sp.Name
					} else {
						al[sp.Path] = lastElem(sp.Path)
					}
				}
				v["imports"] = al
				r.Vars = append(r.Vars, v)
				continue
			}
			pool := kessoku.NewVarPool()
			imports := map[string]*kessoku.Import{}
			e, err := kessoku.VerifCreateASTTypeExpr("example.com/p", t, pool, imports)
			if err != nil {
				v["error"] = err.Error()
			} else {
				v["expr"] = exTree(e)
				al := map[string]string{}
				for p, im := range imports {
					al[p] = im.Name
				}
				v["imports"] = al
			}
			r.Vars = append(r.Vars, v)
		}
		out = append(out, r)
	}
	_ = json.NewEncoder(os.Stdout).Encode(out)
}
