// Injected with `go build -overlay` as /repo/cmd/verifvarpool/main.go: drives the real VarPool with request histories.
package main

import (
	"encoding/json"
	"go/token"
	"go/types"
	"os"

	"github.com/mazrean/kessoku/internal/kessoku"
)

type history struct {
	Pre  []string   `json:"pre"`
	Reqs [][]string `json:"reqs"`
}

func named(name string) types.Type {
	pkg := types.NewPackage("example.com/p", "p")
	return types.NewNamed(types.NewTypeName(token.NoPos, pkg, name, nil), types.NewStruct(nil, nil), nil)
}

func main() {
	var hs []history
	if err := json.NewDecoder(os.Stdin).Decode(&hs); err != nil {
		panic(err)
	}
	out := make([][]string, 0, len(hs))
	for _, h := range hs {
		p := kessoku.NewVarPool()
		for _, n := range h.Pre {
			_ = p.GetName(n)
		}
		res := []string{}
		for _, r := range h.Reqs {
			switch r[0] {
			case "name":
				res = append(res, p.GetName(r[1]))
			case "get":
				res = append(res, p.Get(types.NewPointer(named(r[1]))))
			case "chan":
				res = append(res, p.GetChannel(named(r[1])))
			}
		}
		out = append(out, res)
	}
	_ = json.NewEncoder(os.Stdout).Encode(out)
}
