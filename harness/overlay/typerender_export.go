// Injected with `go build -overlay` as /repo/internal/kessoku/zz_verif_export.go: exposes the unexported type
// spelling function to the correspondence driver. Exists only in the overlay; /repo is not changed.
package kessoku

import (
	"go/ast"
	"go/types"
)

func VerifCreateASTTypeExpr(pkg string, t types.Type, varPool *VarPool, imports map[string]*Import) (ast.Expr, error) {
	return createASTTypeExpr(pkg, t, varPool, imports)
}
