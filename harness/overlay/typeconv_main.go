// Injected with `go build -overlay` as /repo/cmd/veriftypeconv/main.go: drives the real TypeConverter.AddImport.
package main

import (
	"encoding/json"
	"go/token"
	"go/types"
	"os"

	"github.com/mazrean/kessoku/internal/migrate"
)

type history struct {
	Reserved []string    `json:"reserved"` // names the source package declares at package level
	Reqs     [][2]string `json:"reqs"`     // (path, desired name)
}

func main() {
	var hs []history
	if err := json.NewDecoder(os.Stdin).Decode(&hs); err != nil {
		panic(err)
	}
	out := make([][]string, 0, len(hs))
	for _, h := range hs {
		pkg := types.NewPackage("example.com/p", "p")
		for _, n := range h.Reserved {
			pkg.Scope().Insert(types.NewVar(token.NoPos, pkg, n, types.Typ[types.Int]))
		}
		tc := migrate.NewTypeConverter(pkg)
		res := []string{}
		for _, r := range h.Reqs {
			res = append(res, tc.AddImport(r[0], r[1]))
		}
		out = append(out, res)
	}
	_ = json.NewEncoder(os.Stdout).Encode(out)
}
