// Injected with `go build -overlay` as /repo/cmd/veriftypeconv/main.go: drives the real TypeConverter.AddImport.
package main

import (
	"encoding/json"
	"os"

	"github.com/mazrean/kessoku/internal/migrate"
)

func main() {
	var hs [][][2]string // histories of (path, desired name)
	if err := json.NewDecoder(os.Stdin).Decode(&hs); err != nil {
		panic(err)
	}
	out := make([][]string, 0, len(hs))
	for _, h := range hs {
		tc := migrate.NewTypeConverter(nil)
		res := []string{}
		for _, r := range h {
			res = append(res, tc.AddImport(r[0], r[1]))
		}
		out = append(out, res)
	}
	_ = json.NewEncoder(os.Stdout).Encode(out)
}
